/-
  C05 — include and import honor the documented context visibility.

  Model: Model/CtxFlow.lean (`targetCtx`: the context a target template is rendered with, transcribed from the code
  emitted by visit_Include / _import_common and from new_context / get_all / _get_default_module; `bindTop` /
  `getExported`: the exported_vars bookkeeping; `includeResolve` / `selectTemplate`).
  Spec: Spec/CtxFlow.lean (docs/templates.rst).  Every theorem holds for all contexts, locals, globals, flags, value
  types; nothing is bounded.

  F16: the statement for a default import (`ImportStatement`) is FALSE for the model as it is for the code
  (Findings/F16.lean); it is proved here under the explicit hypothesis `NoShadow`.
-/
import JinjaV.Model.CtxFlow
import JinjaV.Spec.CtxFlow
import JinjaV.Lemmas.CtxFlow

namespace JinjaV.C05
open JinjaV.CtxFlow JinjaV.SpecCtxFlow

variable {α : Type}

/-- what a lookup in a context finds, as a spec-side lookup function -/
def sees (c : Ctx α) : Lookup α := c.resolve

/-! ### with context -/

/-- `context.get_all()` may be the parent dict, the vars dict or a merged copy: in all three cases a lookup in it is
    `resolve_or_missing` on the context. -/
theorem get_all_is_resolve (c : Ctx α) (n : Name) : Env.get c.getAll n = c.resolve n := getAll_get c n

example : Env.get ({ parent := [("a", 1), ("b", 2)], vars := [("a", 3)] } : Ctx Nat).getAll "a" = some 3 := by decide

/-- `with context` (include and import alike): the statement never fails and the target sees the current local
    variables over the current context — a local that is not `missing` wins, a `missing` one is skipped. -/
theorem with_context_sees (s : Situation α) (h : s.withCtx = true) :
    ∃ c, targetCtx s = some c ∧
      ∀ n, sees c n = withContextSees (Locals.val s.locals) s.ctx.resolve n := by
  refine ⟨newContext s.tgtGlobals (some s.ctx.getAll) true s.locals, by simp [targetCtx, h], ?_⟩
  intro n
  simp only [sees]
  rw [newContext_resolve]
  simp only [if_true, Option.getD_some, getAll_get]
  unfold withContextSees orElse
  rfl

/-- What "the current local variables" are: the dict built by `dump_local_context` gives every name the value of its
    *innermost* declaration among the enclosing scopes — an inner loop variable / macro parameter / `with` binding hides
    an outer `set`; and when the innermost Python local is still `missing`, the name counts as having no local value
    (the lookup then falls through to the context, not to an outer scope's local). -/
theorem locals_are_innermost (frames : List (Frame α)) (n : Name) :
    Locals.val (dumpLocals frames) n = (findDecl frames n).getD none := by
  rw [dumpLocals, Locals.val_dedupFirst, findDecl_flatten]

example : Locals.val (dumpLocals [[("i", some 2), ("y", none)], [("x", some 1), ("i", some 0), ("y", some 7)]]) "i" = some 2 ∧
    Locals.val (dumpLocals [[("i", some 2), ("y", none)], [("x", some 1), ("i", some 0), ("y", some 7)]]) "y" = none ∧
    Locals.val (dumpLocals [[("i", some 2), ("y", none)], [("x", some 1), ("i", some 0), ("y", some 7)]]) "x" = some 1 := by
  decide

/-- include: with context as above, without context exactly the target template's own globals -/
theorem include_ctx (s : Situation α) (hk : s.kind = .inc) :
    ∃ c, targetCtx s = some c ∧
      ∀ n, sees c n = includeSees s.withCtx (Locals.val s.locals) s.ctx.resolve s.tgtGlobals.get n := by
  cases hw : s.withCtx with
  | true =>
    obtain ⟨c, hc, hs⟩ := with_context_sees s hw
    exact ⟨c, hc, fun n => by rw [hs n]; simp [includeSees]⟩
  | false =>
    refine ⟨newContext s.tgtGlobals none false [], by simp [targetCtx, hw, hk], ?_⟩
    intro n
    simp only [sees]
    rw [newContext_resolve]
    simp [includeSees, Locals.val, Env.get_nil]

/-- a loop variable `l`, a not yet assigned `m`, render variable `r`, the includer's global `g`, the target's global `t` -/
def exInclude : Situation String :=
  { ctx := rootContext [("g", "G")] [("r", "R")]
    locals := [("l", some "L"), ("m", none)]
    srcGlobals := [("g", "G")]
    tgtGlobals := [("t", "T")]
    kind := .inc
    withCtx := true }

example : ∃ c, targetCtx exInclude = some c ∧
    sees c "l" = some "L" ∧ sees c "r" = some "R" ∧ sees c "g" = some "G" ∧ sees c "t" = none ∧ sees c "m" = none :=
  ⟨_, rfl, by decide, by decide, by decide, by decide, by decide⟩

/-- `without context` cuts the target off completely: nothing of the including template (context, render variables,
    locals, its globals, even the statement kind's caching) can influence what an included template sees. -/
theorem include_without_independent (s s' : Situation α) (hk : s.kind = .inc) (hk' : s'.kind = .inc)
    (hw : s.withCtx = false) (hw' : s'.withCtx = false) (hg : s.tgtGlobals = s'.tgtGlobals) :
    targetCtx s = targetCtx s' := by
  simp [targetCtx, hk, hk', hw, hw', hg]

/-! ### default import -/

/-- the importing context belongs to the importing template: its `globals_keys` are the keys of that template's
    globals (`new_context(…, globals=self.globals)`) -/
def GlobalsKeysOf (s : Situation α) : Prop := ∀ k, k ∈ s.ctx.gkeys ↔ k ∈ s.srcGlobals.keys

/-- THE HYPOTHESIS (F16): every importing-template global key that the imported template does not have itself is
    present in the importing context's parent *with the global's value* — no render variable, inherited context value
    or local of that name sits on top of it. -/
def NoShadow (s : Situation α) : Prop :=
  ∀ k, k ∈ s.ctx.gkeys → k ∉ s.tgtGlobals.keys → s.ctx.parent.get k = s.srcGlobals.get k

/-- conclusion of the import property for one situation -/
def ImportHolds (s : Situation α) : Prop :=
  ∃ c, targetCtx s = some c ∧
    ∀ n, sees c n = importSees s.withCtx (Locals.val s.locals) s.ctx.resolve s.tgtGlobals.get s.srcGlobals.get n

/-- The full-strength statement ("imports see only globals unless with context"): FALSE — see Findings/F16.lean. -/
def ImportStatement : Prop :=
  ∀ (α : Type) (s : Situation α), s.kind = .imp → GlobalsKeysOf s → ImportHolds s

private theorem default_import_lookup (s : Situation α) (wf : GlobalsKeysOf s) (ns : NoShadow s) {extra : Env α}
    (he : defaultModuleVars s.ctx s.tgtGlobals = some extra) (n : Name) :
    orElse (Env.get extra n) (Env.get s.tgtGlobals n) = orElse (Env.get s.tgtGlobals n) (Env.get s.srcGlobals n) := by
  rw [lookupAll_get he n]
  by_cases hx : n ∈ extraKeys s.ctx s.tgtGlobals
  · obtain ⟨hg, ht⟩ := (mem_extraKeys _ _ _).mp hx
    have hnone : Env.get s.tgtGlobals n = none := (Env.get_eq_none_iff _ _).mpr ht
    simp only [hx, if_true, hnone, orElse_none]
    rw [ns n hg ht]
    cases Env.get s.srcGlobals n <;> rfl
  · simp only [hx, if_false, orElse_none]
    cases ht : Env.get s.tgtGlobals n with
    | some v => rfl
    | none =>
      have hnt : n ∉ s.tgtGlobals.keys := (Env.get_eq_none_iff _ _).mp ht
      have hng : n ∉ s.ctx.gkeys := fun hg => hx ((mem_extraKeys _ _ _).mpr ⟨hg, hnt⟩)
      have : n ∉ s.srcGlobals.keys := fun h => hng ((wf n).mpr h)
      simp [(Env.get_eq_none_iff _ _).mpr this]

/-- import: with context like an include; by default exactly the imported template's globals, then the importing
    template's globals — nothing else of the importing context — provided `NoShadow`. -/
theorem import_ctx (s : Situation α) (hk : s.kind = .imp) (wf : GlobalsKeysOf s) (ns : NoShadow s) :
    ImportHolds s := by
  unfold ImportHolds
  cases hw : s.withCtx with
  | true =>
    obtain ⟨c, hc, hs⟩ := with_context_sees s hw
    exact ⟨c, hc, fun n => by rw [hs n]; simp [importSees]⟩
  | false =>
    have hsome : (defaultModuleVars s.ctx s.tgtGlobals).isSome := by
      unfold defaultModuleVars
      rw [lookupAll_isSome_iff]
      intro k hkx
      obtain ⟨hg, ht⟩ := (mem_extraKeys _ _ _).mp hkx
      rw [ns k hg ht, Env.get_isSome_iff]
      exact (wf k).mp hg
    obtain ⟨extra, he⟩ := Option.isSome_iff_exists.mp hsome
    have key := default_import_lookup s wf ns he
    have spec : ∀ n, importSees false (Locals.val s.locals) s.ctx.resolve s.tgtGlobals.get s.srcGlobals.get n
        = orElse (Env.get s.tgtGlobals n) (Env.get s.srcGlobals n) := by
      intro n; simp only [importSees]; unfold orElse; rfl
    by_cases hem : extra.isEmpty = true
    · refine ⟨newContext s.tgtGlobals none false [], by simp [targetCtx, hw, hk, he, hem], ?_⟩
      intro n
      have hnil : extra = [] := by cases extra with
        | nil => rfl
        | cons _ _ => simp at hem
      have k := key n
      rw [hnil] at k
      simp only [Env.get_nil, orElse_none] at k
      simp only [sees]
      rw [newContext_resolve, spec n, ← k]
      simp [Locals.val, Env.get_nil]
    · refine ⟨newContext s.tgtGlobals (some extra) false [], by simp [targetCtx, hw, hk, he, hem], ?_⟩
      intro n
      simp only [sees]
      rw [newContext_resolve, spec n, ← key n]
      simp [Locals.val]

/-- The no-shadowing hypothesis in the words of the finding, for the context of a top-level render
    `get_template(name, globals=G).render(**vars)`: no render variable is named like a key that the importing
    template's globals have and the imported template's globals lack. -/
theorem import_ctx_default_root (srcGlobals tgtGlobals renderVars : Env α) (locals : Locals α) (vars : Env α)
    (exported : List Name)
    (hno : ∀ k, k ∈ srcGlobals.keys → k ∉ tgtGlobals.keys → k ∉ renderVars.keys) :
    ImportHolds { ctx := { rootContext srcGlobals renderVars with vars := vars, exported := exported }
                  locals := locals
                  srcGlobals := srcGlobals
                  tgtGlobals := tgtGlobals
                  kind := .imp
                  withCtx := false } := by
  apply import_ctx _ rfl
  · intro k; simp [rootContext, newContext]
  · intro k hg ht
    simp only [rootContext, newContext, applyLocals, Option.getD_some, Bool.false_eq_true, if_false] at hg ⊢
    rw [overlay_get]
    have : Env.get renderVars k = none := (Env.get_eq_none_iff _ _).mpr (hno k (by simpa using hg) ht)
    simp [this]

example : ImportHolds ({ ctx := { rootContext [("g", "GLOBAL")] [("r", "R")] with vars := [], exported := [] }
                         locals := [("l", some "L")]
                         srcGlobals := [("g", "GLOBAL")]
                         tgtGlobals := [("e", "E")]
                         kind := .imp
                         withCtx := false } : Situation String) :=
  import_ctx_default_root [("g", "GLOBAL")] [("e", "E")] [("r", "R")] [("l", some "L")] [] [] (by decide)

/-- exactly when the default import raises `KeyError`: some extra global key is absent from the context's parent
    (possible only for a context created `shared`, i.e. of a template that was itself included / imported with
    context; second face of F16) -/
theorem import_default_keyerror_iff (s : Situation α) (hk : s.kind = .imp) (hw : s.withCtx = false) :
    targetCtx s = none ↔ ∃ k, k ∈ s.ctx.gkeys ∧ k ∉ s.tgtGlobals.keys ∧ s.ctx.parent.get k = none := by
  have hiff := lookupAll_isSome_iff s.ctx.parent (extraKeys s.ctx s.tgtGlobals)
  constructor
  · intro h
    have hnone : defaultModuleVars s.ctx s.tgtGlobals = none := by
      cases hd : defaultModuleVars s.ctx s.tgtGlobals with
      | none => rfl
      | some e => by_cases hem : e.isEmpty = true <;> simp [targetCtx, hw, hk, hd, hem] at h
    have : ¬ ∀ k ∈ extraKeys s.ctx s.tgtGlobals, (Env.get s.ctx.parent k).isSome := by
      intro hall
      have := hiff.mpr hall
      simp [defaultModuleVars] at hnone
      simp [hnone] at this
    have : ∃ k, k ∈ extraKeys s.ctx s.tgtGlobals ∧ ¬ (Env.get s.ctx.parent k).isSome := by
      apply Classical.byContradiction
      intro hne
      apply this
      intro k hkx
      apply Classical.byContradiction
      intro hns
      exact hne ⟨k, hkx, hns⟩
    obtain ⟨k, hkx, hnk⟩ := this
    obtain ⟨hg, ht⟩ := (mem_extraKeys _ _ _).mp hkx
    refine ⟨k, hg, ht, ?_⟩
    cases hv : Env.get s.ctx.parent k with
    | none => rfl
    | some v => simp [hv] at hnk
  · rintro ⟨k, hg, ht, hnone⟩
    have hn : ¬ (lookupAll s.ctx.parent (extraKeys s.ctx s.tgtGlobals)).isSome := by
      intro hs
      have := hiff.mp hs k ((mem_extraKeys _ _ _).mpr ⟨hg, ht⟩)
      simp [hnone] at this
    cases hd : lookupAll s.ctx.parent (extraKeys s.ctx s.tgtGlobals) with
    | none => simp [targetCtx, hw, hk, defaultModuleVars, hd]
    | some e => simp [hd] at hn

/-- a template with its own global `g`, included with context into a context that has no `g`, imports -/
def exKeyError : Situation String :=
  { ctx := { parent := [("x", "1")], gkeys := ["g"] }
    locals := []
    srcGlobals := [("g", "G")]
    tgtGlobals := []
    kind := .imp
    withCtx := false }

example : (targetCtx exKeyError).isNone = true := by decide

/-- "imports are cached": whenever the statement is served from `Template._module`, the context it would have been
    rendered with is the context of `make_module()` with no arguments — the cached module is never one that saw
    anything of a particular importer (so reusing it for the next importer is sound). -/
theorem cached_module_is_context_free (s : Situation α) (h : servedFromCache s = true) :
    targetCtx s = some (newContext s.tgtGlobals none false []) := by
  simp only [servedFromCache, Bool.and_eq_true, Bool.not_eq_true'] at h
  obtain ⟨hw, hk⟩ := h
  cases hkind : s.kind with
  | inc => simp [targetCtx, hw, hkind]
  | imp =>
    simp only [hkind] at hk
    have hnil : extraKeys s.ctx s.tgtGlobals = [] := by
      cases hx : extraKeys s.ctx s.tgtGlobals with
      | nil => rfl
      | cons _ _ => simp [hx] at hk
    simp [targetCtx, hw, hkind, defaultModuleVars, hnil, lookupAll]

/-- … and a default import that is *not* served from the cache is rendered for this importer alone with at least one
    extra key -/
theorem uncached_import_has_extra (s : Situation α) (hk : s.kind = .imp) (hw : s.withCtx = false)
    (h : servedFromCache s = false) : ∃ k, k ∈ s.ctx.gkeys ∧ k ∉ s.tgtGlobals.keys := by
  simp only [servedFromCache, hw, hk, Bool.not_false, Bool.true_and] at h
  cases hx : extraKeys s.ctx s.tgtGlobals with
  | nil => simp [hx] at h
  | cons k r =>
    have : k ∈ extraKeys s.ctx s.tgtGlobals := by simp [hx]
    exact ⟨k, (mem_extraKeys _ _ _).mp this⟩

/-! ### module exports -/

def toHistory : TopBind α → String × Bool × α
  | .assign n v => (n, true, v)
  | .imported n v => (n, false, v)

/-- the last binding of `n` in a list of top-level bindings -/
def lastBind (binds : List (TopBind α)) (n : Name) : Option (TopBind α) :=
  binds.reverse.find? fun b => b.name = n

private theorem lastBind_snoc (bs : List (TopBind α)) (b : TopBind α) (n : Name) :
    lastBind (bs ++ [b]) n = if b.name = n then some b else lastBind bs n := by
  simp [lastBind, List.find?_cons]
  by_cases h : b.name = n <;> simp [h]

private theorem vars_after (c0 : Ctx α) (h0 : c0.vars = []) (binds : List (TopBind α)) (n : Name) :
    Env.get (binds.foldl Ctx.bindTop c0).vars n =
      (lastBind binds n).map fun b => match b with | .assign _ v => v | .imported _ v => v := by
  induction binds using snoc_induction with
  | nil => simp [lastBind, h0, Env.get]
  | snoc bs b ih =>
    rw [List.foldl_append, lastBind_snoc]
    simp only [List.foldl_cons, List.foldl_nil]
    cases b with
    | assign k v =>
      simp only [Ctx.bindTop, Env.set, Env.get_cons, TopBind.name]
      by_cases h : k = n <;> simp [h, ih]
    | imported k v =>
      simp only [Ctx.bindTop, Env.set, Env.get_cons, TopBind.name]
      by_cases h : k = n <;> simp [h, ih]

private theorem exported_after (c0 : Ctx α) (h0 : c0.exported = []) (binds : List (TopBind α)) (n : Name) :
    n ∈ (binds.foldl Ctx.bindTop c0).exported ↔
      isPublic n = true ∧ ∃ v, lastBind binds n = some (.assign n v) := by
  induction binds using snoc_induction with
  | nil => simp [lastBind, h0]
  | snoc bs b ih =>
    rw [List.foldl_append, lastBind_snoc]
    simp only [List.foldl_cons, List.foldl_nil]
    cases b with
    | assign k v =>
      simp only [Ctx.bindTop, TopBind.name]
      by_cases hkn : k = n
      · subst hkn
        by_cases hp : isPublic k = true
        · simp [hp]
        · simp only [hp, Bool.false_eq_true, if_false, if_true, false_and, iff_false]
          intro hmem; exact hp (ih.mp hmem).1
      · have hnk : ¬ n = k := fun e => hkn e.symm
        by_cases hp : isPublic k = true
        · simp [hp, hkn, hnk, ih]
        · simp [hp, hkn, ih]
    | imported k v =>
      simp only [Ctx.bindTop, TopBind.name]
      by_cases hkn : k = n
      · subst hkn
        by_cases hp : isPublic k = true
        · simp [hp]
        · simp only [hp, Bool.false_eq_true, if_false, if_true, Option.some.injEq, reduceCtorEq, exists_false,
            and_false, iff_false]
          intro hmem; exact hp (ih.mp hmem).1
      · have hnk : ¬ n = k := fun e => hkn e.symm
        by_cases hp : isPublic k = true
        · simp [hp, hkn, hnk, ih]
        · simp [hp, hkn, ih]

private theorem history_find (l : List (TopBind α)) (n : Name) :
    (match (l.map toHistory).find? (fun b => b.1 = n) with
      | some (_, true, v) => some v
      | _ => none) =
    (match l.find? (fun b => b.name = n) with
      | some (.assign _ v) => some v
      | _ => none) := by
  induction l with
  | nil => rfl
  | cons b r ih =>
    rw [List.map_cons, List.find?_cons, List.find?_cons]
    cases b with
    | assign k v =>
      by_cases h : k = n
      · simp only [toHistory, TopBind.name, h, decide_true]
      · simp only [toHistory, TopBind.name, h, decide_false]; exact ih
    | imported k v =>
      by_cases h : k = n
      · simp only [toHistory, TopBind.name, h, decide_true]
      · simp only [toHistory, TopBind.name, h, decide_false]; exact ih

private theorem spec_exports_eq (binds : List (TopBind α)) (n : Name) :
    exports isPublic (binds.map toHistory) n =
      if isPublic n = true then
        match lastBind binds n with
        | some (.assign _ v) => some v
        | _ => none
      else none := by
  unfold exports lastBind
  by_cases hp : isPublic n = true
  · simp only [hp, if_true]
    rw [← List.map_reverse]
    exact history_find binds.reverse n
  · simp [hp]

/-- The attributes of a `TemplateModule` (`get_exported()` after the module body ran) are exactly the public names
    whose *current* top-level binding was made by a `set` / block `set` / `macro`, with that binding's value — for
    every sequence of top-level assignments and imports, in every order (re-assignment after an import re-exports,
    an import over an assignment hides). -/
theorem module_exports (c0 : Ctx α) (hv : c0.vars = []) (he : c0.exported = []) (binds : List (TopBind α)) (n : Name) :
    Env.get (binds.foldl Ctx.bindTop c0).getExported n = exports isPublic (binds.map toHistory) n := by
  rw [getExported_get, spec_exports_eq, vars_after c0 hv]
  by_cases hmem : n ∈ (binds.foldl Ctx.bindTop c0).exported
  · obtain ⟨hp, v, hl⟩ := (exported_after c0 he binds n).mp hmem
    simp [hmem, hp, hl]
  · simp only [hmem, if_false]
    by_cases hp : isPublic n = true
    · simp only [hp, if_true]
      cases hl : lastBind binds n with
      | none => rfl
      | some b =>
        cases b with
        | imported k v => rfl
        | assign k v =>
          exfalso
          have hk : k = n := by
            have := List.find?_some (show List.find? (fun b => decide (b.name = n)) binds.reverse = _ from hl)
            exact of_decide_eq_true this
          subst hk
          exact hmem ((exported_after c0 he binds k).mpr ⟨hp, v, hl⟩)
    · simp [hp]

example : Env.get ([TopBind.assign "x" 1, .imported "x" 2, .assign "y" 3, .assign "_z" 4, .assign "x" 5].foldl
    Ctx.bindTop ({ parent := [] } : Ctx Nat)).getExported "x" = some 5 := by decide +kernel

/-! ### which template is rendered -/

/-- a list selects the first entry that exists: a `Template` object or a loadable name is rendered, an existing but
    non-compiling template surfaces its syntax error, nothing existing raises `TemplatesNotFound` -/
theorem select_first_existing (items : List Item) :
    selectTemplate items =
      match selectFirst Item.existing items with
      | some (.obj t) => .ok t
      | some (.name (.found t)) => .ok t
      | some (.name .broken) => .error .syntaxError
      | some _ => .error .templatesNotFound
      | none => .error .templatesNotFound := by
  unfold selectTemplate selectFirst
  induction items with
  | nil => rfl
  | cons i r ih =>
    cases i with
    | obj t => simp [selectLoop, List.find?_cons, Item.existing]
    | name l => cases l <;> simp [selectLoop, List.find?_cons, Item.existing, ih]

example : selectTemplate [.name .notFound, .name .undefinedName, .name (.found "b"), .name (.found "c")] = .ok "b" := rfl

/-- `ignore missing` skips the statement exactly when nothing that is named exists (one missing name; a list whose
    every entry is missing or undefined, the empty list included) -/
theorem ignore_missing_only_missing (t : IncTarget) :
    includeResolve t true = .ok none ↔
      match t with
      | .single i => i = .name .notFound
      | .many items => ignoredWhen Item.existing items = true := by
  cases t with
  | single i =>
    cases i with
    | obj t => simp [includeResolve, IncTarget.load, getTemplate]
    | name l => cases l <;> simp [includeResolve, IncTarget.load, getTemplate, Err.isNotFound]
  | many items =>
    simp only [includeResolve, IncTarget.load, ignoredWhen]
    rw [select_first_existing]
    unfold selectFirst
    cases hf : items.find? Item.existing with
    | none =>
      simp only [Err.isNotFound, Bool.and_self, if_true, true_iff]
      rw [List.all_eq_true]
      intro x hx
      have := List.find?_eq_none.mp hf x hx
      simpa using this
    | some i =>
      have hex : i.existing = true := List.find?_some hf
      have hmem : i ∈ items := List.mem_of_find?_eq_some hf
      have hnot : ¬ (items.all fun n => !n.existing) = true := by
        rw [List.all_eq_true]
        intro hall
        have := hall i hmem
        simp [hex] at this
      cases i with
      | obj t => simp [hnot]
      | name l => cases l <;> simp [Item.existing] at hex <;> simp [Err.isNotFound, hnot]

/-- … and changes nothing else: a statement that resolves without the flag resolves to the same template with it; an
    error that is not a not-found error is raised with and without it; without the flag nothing is ever skipped -/
theorem ignore_missing_keeps_everything_else (t : IncTarget) :
    (∀ r, includeResolve t false = .ok r → r ≠ none ∧ includeResolve t true = .ok r) ∧
    (∀ e, e.isNotFound = false → (includeResolve t true = .error e ↔ includeResolve t false = .error e)) ∧
    (∀ e, includeResolve t true = .error e → e.isNotFound = false) := by
  unfold includeResolve
  cases h : t.load with
  | ok n => simp
  | error e =>
    cases hn : e.isNotFound with
    | true =>
      refine ⟨?_, ?_, ?_⟩
      · intro r hr; simp at hr
      · intro e' he'
        simp only [Bool.true_and, hn, if_true, Bool.false_and, Bool.false_eq_true, if_false]
        constructor
        · intro h'; cases h'
        · intro h'; injection h' with h'; subst h'; simp [hn] at he'
      · intro e' h'; simp [hn] at h'
    | false =>
      refine ⟨?_, ?_, ?_⟩
      · intro r hr; simp at hr
      · intro e' _; simp [hn]
      · intro e' h'; simp [hn] at h'; subst h'; exact hn

example : includeResolve (.many [.name .notFound, .name .broken, .name (.found "a")]) true = .error .syntaxError := rfl

end JinjaV.C05
