/-
  C39 — the raw token stream is lossless and line-accurate (and C35's token-line clause).

  For every configuration and every source string: concatenating the texts of the tokens the
  lexer model yields — with the whitespace removed by `-` signs and `lstrip_blocks` re-inserted as
  `ghost` tokens — gives back the preprocessed source, every ghost is whitespace, and the line
  number of every token is 1 + the number of line breaks before it.  No bound on the source.
-/
import JinjaV.Lemmas.Lex

namespace JinjaV.C39
open JinjaV.Lex

def texts (toks : List Tok) : Str := (toks.map (·.text)).flatten

/-- every token carries the line on which its text starts -/
def WellLined (toks : List Tok) : Prop :=
  ∀ a t b, toks = a ++ t :: b → t.lineno = 1 + countNl (texts a)

theorem texts_append (a b : List Tok) : texts (a ++ b) = texts a ++ texts b := by
  simp [texts]

theorem countNl_append (a b : Str) : countNl (a ++ b) = countNl a + countNl b := by
  simp [countNl, List.count_append]

theorem wellLined_snoc (toks : List Tok) (t : Tok) (h : WellLined toks) (ht : t.lineno = 1 + countNl (texts toks)) :
    WellLined (toks ++ [t]) := by
  intro a x b hx
  rcases List.eq_nil_or_concat b with rfl | ⟨b', y, rfl⟩
  · have e : toks ++ [t] = a ++ [x] := by simpa using hx
    have := List.append_inj' e rfl
    obtain ⟨h1, h2⟩ := this
    simp at h2
    rw [← h1, ← h2]; exact ht
  · have e : toks ++ [t] = (a ++ x :: b') ++ [y] := by simpa using hx
    have h2 : toks = a ++ x :: b' := (List.append_inj' e rfl).1
    exact h a x b' h2

structure Inv (src : Str) (l : Loop) (s : Str) : Prop where
  lossless : texts l.out.reverse ++ s = src
  line : l.lineno = 1 + countNl (texts l.out.reverse)
  lined : WellLined l.out.reverse
  ghosts : ∀ t ∈ l.out, t.kind = .ghost → t.text.all isSpace = true

/-- emitting the next piece of the input keeps the invariant -/
theorem emit_inv (src : Str) (l : Loop) (k : TK) (text rest : Str) (always : Bool)
    (hg : k = .ghost → text.all isSpace = true)
    (h : Inv src l (text ++ rest)) : Inv src (emit l k text always) rest := by
  unfold emit
  by_cases hc : (always || !text.isEmpty) = true
  · simp only [hc, if_true]
    constructor
    · simp only [List.reverse_cons, texts_append]
      have := h.lossless
      simp only [texts, List.map_cons, List.map_nil, List.flatten_cons, List.flatten_nil, List.append_nil] at this ⊢
      rw [List.append_assoc]; exact this
    · simp only [List.reverse_cons, texts_append]
      have := h.line
      simp only [texts, List.map_cons, List.map_nil, List.flatten_cons, List.flatten_nil, List.append_nil,
        countNl_append] at this ⊢
      omega
    · simp only [List.reverse_cons]
      exact wellLined_snoc _ _ h.lined h.line
    · intro t ht hk
      simp at ht
      rcases ht with rfl | ht
      · exact hg hk
      · exact h.ghosts t ht hk
  · simp only [hc, Bool.false_eq_true, if_false]
    have he : text = [] := by
      simp at hc; exact hc.2
    subst he
    constructor
    · simpa using h.lossless
    · have := h.line; simp [countNl] at this ⊢; exact this
    · exact h.lined
    · exact h.ghosts

/-- fields other than `out` and `lineno` do not matter -/
theorem inv_congr {src : Str} {l : Loop} {s : Str} (h : Inv src l s) (l' : Loop)
    (ho : l'.out = l.out) (hl : l'.lineno = l.lineno) : Inv src l' s := by
  constructor
  · rw [ho]; exact h.lossless
  · rw [ho, hl]; exact h.line
  · rw [ho]; exact h.lined
  · rw [ho]; exact h.ghosts

/-- what a finished run guarantees -/
def Final (src : Str) : LexRes → Prop
  | .ok toks => texts toks = src ∧ WellLined toks ∧ ∀ t ∈ toks, t.kind = .ghost → t.text.all isSpace = true
  | .syntaxError toks _ ln => (∃ rest, texts toks ++ rest = src) ∧ WellLined toks ∧ ln = 1 + countNl (texts toks)
  | .fuel toks => (∃ rest, texts toks ++ rest = src) ∧ WellLined toks

theorem final_ok (src : Str) (l : Loop) (h : Inv src l []) : Final src (.ok (finish l)) := by
  refine ⟨?_, h.lined, ?_⟩
  · have := h.lossless; simpa [finish] using this
  · intro t ht; exact h.ghosts t (by simpa [finish] using ht)

theorem final_err (src : Str) (l : Loop) (s : Str) (k : ErrKind) (h : Inv src l s) :
    Final src (.syntaxError (finish l) k l.lineno) :=
  ⟨⟨s, h.lossless⟩, h.lined, h.line⟩

theorem tagStep_err (l : Loop) (s : Str) (e : ErrKind) (ln : Nat) (h : tagStep l s = .error (e, ln)) :
    ln = l.lineno := by
  unfold tagStep at h
  split at h
  · rename_i k text rest hr
    cases hb : balanceFor k l.balancing text with
    | error e' => simp [hb] at h; exact h.2.symm
    | ok b => simp [hb] at h
  · split at h
    · simp at h; exact h.2.symm
    · simp at h

theorem tagStep_ok (src : Str) (l l' : Loop) (s rest : Str) (hne : s ≠ []) (hi : Inv src l s)
    (h : tagStep l s = .ok (l', rest)) : Inv src l' rest := by
  unfold tagStep at h
  split at h
  · rename_i k text rest' hr
    cases hb : balanceFor k l.balancing text with
    | error e' => simp [hb] at h
    | ok b =>
      simp [hb] at h
      obtain ⟨rfl, rfl⟩ := h
      have e := tagRule_eq _ _ _ _ _ hr
      have hkg : k = TK.ghost → text.all isSpace = true := by
        intro hk; subst hk
        unfold tagRule at hr
        repeat' split at hr
        all_goals simp at hr
      have key : Inv src (emit { l with balancing := b } k text false) rest' := by
        refine emit_inv _ _ _ _ _ _ hkg ?_
        rw [e]
        exact inv_congr hi _ rfl rfl
      exact inv_congr key _ rfl rfl
  · split at h
    · simp at h
    · exact absurd rfl hne

theorem step_inv (cfg : Cfg) (alts : List RootKind) (src : Str) (l : Loop) (s : Str) (h : Inv src l s) :
    match step cfg alts l s with
    | .cont l' s' => Inv src l' s'
    | .done r => Final src r := by
  have hpop : Inv src { l with stack := l.stack.drop 1 } s := inv_congr h _ rfl rfl
  generalize hres : step cfg alts l s = res
  unfold step at hres
  simp only at hres
  split at hres
  · -- root
    split at hres
    · rename_i text kind matched sign rest hf
      subst hres
      have e := findRoot_eq _ _ _ _ _ _ _ _ _ hf
      have e2 := lstripText_eq cfg l.lineStarting (kind == .vari) sign text
      have key : Inv src (emit (emit (emit l .data (lstripText cfg l.lineStarting (kind == .vari) sign text).1 false)
          .ghost (lstripText cfg l.lineStarting (kind == .vari) sign text).2 false) kind.tk matched true) rest := by
        refine emit_inv _ _ _ _ _ _ (by intro hk; cases kind <;> cases hk) ?_
        refine emit_inv _ _ _ _ _ _ (by intro _; exact lstripText_removed_ws _ _ _ _ _) ?_
        refine emit_inv _ _ _ _ _ _ (by intro hk; cases hk) ?_
        rw [← List.append_assoc, e2, e]; exact h
      exact inv_congr key _ rfl rfl
    · split at hres
      · rename_i hs
        subst hres
        have : s = [] := by simpa using hs
        subst this; exact final_ok src l h
      · subst hres
        apply final_ok
        refine emit_inv _ _ _ _ _ _ (by intro hk; cases hk) ?_; simpa using h
  · -- comment
    split at hres
    · rename_i text matched u rest hf
      subst hres
      have e := findLazy_eq _ (by
        intro x m b r hx
        cases hm : matchEnd3 cfg.trimBlocks cfg.commentEnd x with
        | none => simp [hm] at hx
        | some mr =>
          simp [hm] at hx; obtain ⟨rfl, _, rfl⟩ := hx
          exact matchEnd3_eq _ _ _ _ hm) _ _ _ _ _ hf
      have key : Inv src (emit (emit { l with stack := l.stack.drop 1 } .comment text false) .commentEnd matched true) rest := by
        refine emit_inv _ _ _ _ _ _ (by intro hk; cases hk) ?_
        refine emit_inv _ _ _ _ _ _ (by intro hk; cases hk) ?_
        rw [e]; exact hpop
      exact inv_congr key _ rfl rfl
    · split at hres
      · rename_i hs
        subst hres
        have : s = [] := by simpa using hs
        subst this; exact final_ok src l h
      · subst hres; exact final_err src l s _ h
  · -- raw
    split at hres
    · rename_i text matched sign rest hf
      subst hres
      have e := findLazy_eq _ (by
        intro x m b r hx
        cases hm : matchEndRaw cfg x with
        | none => simp [hm] at hx
        | some mr =>
          simp [hm] at hx; obtain ⟨rfl, _, rfl⟩ := hx
          exact matchEndRaw_eq _ _ _ hm) _ _ _ _ _ hf
      have e2 := lstripText_eq cfg l.lineStarting false sign text
      have key : Inv src (emit (emit (emit { l with stack := l.stack.drop 1 } .data
          (lstripText cfg l.lineStarting false sign text).1 false) .ghost
          (lstripText cfg l.lineStarting false sign text).2 false) .rawEnd matched true) rest := by
        refine emit_inv _ _ _ _ _ _ (by intro hk; cases hk) ?_
        refine emit_inv _ _ _ _ _ _ (by intro _; exact lstripText_removed_ws _ _ _ _ _) ?_
        refine emit_inv _ _ _ _ _ _ (by intro hk; cases hk) ?_
        rw [← List.append_assoc, e2, e]; exact hpop
      exact inv_congr key _ rfl rfl
    · split at hres
      · rename_i hs
        subst hres
        have : s = [] := by simpa using hs
        subst this; exact final_ok src l h
      · subst hres; exact final_err src l s _ h
  · -- line comment
    subst hres
    have key : Inv src (emit (emit { l with stack := l.stack.drop 1 } .lineComment (spanP (· != '\n') s).1 false)
        .lineCommentEnd [] true) (spanP (· != '\n') s).2 := by
      refine emit_inv _ _ _ _ _ _ (by intro hk; cases hk) ?_
      refine emit_inv _ _ _ _ _ _ (by intro hk; cases hk) ?_
      simp only [List.nil_append]
      rw [spanP_eq]; exact hpop
    exact inv_congr key _ rfl rfl
  · -- block / variable / line statement
    split at hres
    · rename_i k matched rest hm
      subst hres
      have e : matched ++ rest = s := by
        split at hm
        · simp at hm
        · split at hm
          · cases h3 : matchEnd3 cfg.trimBlocks cfg.blockEnd s with
            | none => simp [h3] at hm
            | some mr => simp [h3] at hm; obtain ⟨_, rfl, rfl⟩ := hm; exact matchEnd3_eq _ _ _ _ h3
          · cases h3 : matchEndMinusOrPlain cfg.varEnd s with
            | none => simp [h3] at hm
            | some mr => simp [h3] at hm; obtain ⟨_, rfl, rfl⟩ := hm; exact matchEndMinusOrPlain_eq _ _ _ h3
          · cases h3 : matchLineStmtEnd s with
            | none => simp [h3] at hm
            | some mr => simp [h3] at hm; obtain ⟨_, rfl, rfl⟩ := hm; exact matchLineStmtEnd_eq _ _ h3
      have hkg : k = TK.ghost → matched.all isSpace = true := by
        intro hk; subst hk
        split at hm
        · simp at hm
        · split at hm
          · cases h3 : matchEnd3 cfg.trimBlocks cfg.blockEnd s <;> simp [h3] at hm
          · cases h3 : matchEndMinusOrPlain cfg.varEnd s <;> simp [h3] at hm
          · cases h3 : matchLineStmtEnd s <;> simp [h3] at hm
      have key : Inv src (emit { l with stack := l.stack.drop 1 } k matched true) rest := by
        refine emit_inv _ _ _ _ _ _ hkg ?_
        rw [e]; exact hpop
      exact inv_congr key _ rfl rfl
    · split at hres
      · rename_i hs
        subst hres
        have : s = [] := by simpa using hs
        subst this; exact final_ok src l h
      · rename_i hs
        have hne : s ≠ [] := by intro e; apply hs; simp [e]
        cases ht : tagStep l s with
        | error p =>
          obtain ⟨e, ln⟩ := p
          rw [ht] at hres; simp only at hres; subst hres
          have := tagStep_err l s e ln ht
          subst this
          exact final_err src l s _ h
        | ok p =>
          obtain ⟨l', rest⟩ := p
          rw [ht] at hres; simp only at hres; subst hres
          exact tagStep_ok src l l' s rest hne h ht

theorem loop_inv (cfg : Cfg) (alts : List RootKind) (src : Str) (fuel : Nat) (l : Loop) (s : Str)
    (h : Inv src l s) : Final src (loop cfg alts fuel l s) := by
  induction fuel generalizing l s with
  | zero => exact ⟨⟨s, h.lossless⟩, h.lined⟩
  | succ n ih =>
    unfold loop
    have := step_inv cfg alts src l s h
    split
    · rename_i l' rest hs; rw [hs] at this; exact ih l' rest this
    · rename_i r hs; rw [hs] at this; exact this

theorem init_inv (src : Str) : Inv src initLoop src := by
  constructor <;> simp [initLoop, texts, countNl, WellLined]

/-- **C39 (lossless)**: when lexing succeeds, the token texts (with the removed whitespace
    re-inserted) concatenate to the preprocessed source -/
theorem lex_lossless (cfg : Cfg) (src : Str) (toks : List Tok) (h : tokeniter cfg src = .ok toks) :
    texts toks = preprocess cfg src := by
  have := loop_inv cfg (rootAlts cfg) (preprocess cfg src) (2 * (preprocess cfg src).length + 4) initLoop _
    (init_inv _)
  unfold tokeniter at h
  simp only at h
  rw [h] at this
  exact this.1

/-- **C39 (what is removed)**: the only text that does not appear in a real token is whitespace -/
theorem removed_is_whitespace (cfg : Cfg) (src : Str) (toks : List Tok) (h : tokeniter cfg src = .ok toks) :
    ∀ t ∈ toks, t.kind = .ghost → t.text.all isSpace = true := by
  have := loop_inv cfg (rootAlts cfg) (preprocess cfg src) (2 * (preprocess cfg src).length + 4) initLoop _
    (init_inv _)
  unfold tokeniter at h
  simp only at h
  rw [h] at this
  exact this.2.2

/-- **C39/C35 (line numbers)**: every token's line number is 1 + the number of line breaks in
    the preprocessed source before the token's text; and a lexer error reports the current line -/
theorem token_line_any (cfg : Cfg) (src : Str) (toks : List Tok) (h : tokeniter cfg src = .ok toks) :
    ∀ a t b, toks = a ++ t :: b → t.lineno = 1 + countNl (texts a) := by
  have := loop_inv cfg (rootAlts cfg) (preprocess cfg src) (2 * (preprocess cfg src).length + 4) initLoop _
    (init_inv _)
  unfold tokeniter at h
  simp only at h
  rw [h] at this
  exact this.2.1

theorem error_line (cfg : Cfg) (src : Str) (toks : List Tok) (k : ErrKind) (ln : Nat)
    (h : tokeniter cfg src = .syntaxError toks k ln) :
    (∃ rest, texts toks ++ rest = preprocess cfg src) ∧ ln = 1 + countNl (texts toks) ∧
    ln ≤ 1 + countNl (preprocess cfg src) := by
  have := loop_inv cfg (rootAlts cfg) (preprocess cfg src) (2 * (preprocess cfg src).length + 4) initLoop _
    (init_inv _)
  unfold tokeniter at h
  simp only at h
  rw [h] at this
  obtain ⟨⟨rest, hr⟩, _, hl⟩ := this
  refine ⟨⟨rest, hr⟩, hl, ?_⟩
  rw [hl, ← hr, countNl_append]; omega

-- non-vacuity: a source with stripping on both sides
example : (tokeniter ⟨"{%".toList, "%}".toList, "{{".toList, "}}".toList, "{#".toList, "#}".toList, none, none,
      true, true, false⟩ "a \n  {%- if x %}\n{{ y }}".toList) =
    .ok [⟨1, .data, "a".toList⟩, ⟨1, .ghost, " \n  ".toList⟩, ⟨2, .blockBegin, "{%-".toList⟩,
      ⟨2, .whitespace, " ".toList⟩, ⟨2, .name, "if".toList⟩, ⟨2, .whitespace, " ".toList⟩, ⟨2, .name, "x".toList⟩,
      ⟨2, .whitespace, " ".toList⟩, ⟨2, .blockEnd, "%}\n".toList⟩, ⟨3, .variableBegin, "{{".toList⟩,
      ⟨3, .whitespace, " ".toList⟩, ⟨3, .name, "y".toList⟩, ⟨3, .whitespace, " ".toList⟩,
      ⟨3, .variableEnd, "}}".toList⟩] := by decide +kernel

end JinjaV.C39
