/-
  C33 — translation blocks render like their source text and are fully extractable.

  Model: Model/I18n.lean (transcription of ext.py), oracle: Spec/I18n.lean, helper lemmas: Lemmas/I18n.lean.
  Names: a block's variable names satisfy `NameOk` (no parentheses, no whitespace — true of identifiers).
-/
import JinjaV.Lemmas.I18n

namespace JinjaV.C33
open JinjaV.I18n JinjaV.Spec.I18n

/-! ## the percent round trip -/

/-- **C33 (`%` round trip, body level)**: for every body (literal text with `%`, `%(`, braces, line breaks, anything) and
    every mapping that has the referenced names, `message % mapping` is the source text with the variables
    substituted — `%` ↦ `%%` is undone by the formatting, `{{ n }}` ↦ `%(n)s` is filled in, nothing else is touched. -/
theorem trans_format_roundtrip (b : Body) (L : Text → Option Text) (σ : Text → Text)
    (hn : ∀ n ∈ (parseBlock b).1, NameOk n) (hl : ∀ n ∈ (parseBlock b).1, L n = some (σ n)) :
    pyPercentFormat L (parseBlock b).2 = .ok (subst σ b) := by
  rw [← msgS_syms, ← fill_syms]
  rw [← refsS_syms] at hn hl
  exact pyPercentFormat_msgS L σ (syms b) hn hl

/-- a referenced name that is missing from the mapping is a `KeyError`, not a silent gap: the hypothesis of the round
    trip is necessary -/
theorem missing_name_is_keyError (n : Text) (hn : NameOk n) (L : Text → Option Text) (h : L n = none) :
    pyPercentFormat L (parseBlock [.var n]).2 = .error (.keyError n) := by
  have := fmtGo_directive L n hn []
  simp only [List.append_nil, h] at this
  simpa [pyPercentFormat, parseBlock, Piece.msg] using this

/-- **old style without variables**: the `%%` are removed statically and the result is the source text -/
theorem oldstyle_static_undouble (b : Body) (σ : Text → Text) (h : (parseBlock b).1 = []) :
    undouble (parseBlock b).2 = subst σ b := by
  induction b with
  | nil => rfl
  | cons p r ih =>
    cases p with
    | var n => simp [parseBlock, Piece.names] at h
    | data t =>
      have hr : (parseBlock r).1 = [] := by simpa [parseBlock, Piece.names] using h
      have e1 : (parseBlock (Piece.data t :: r)).2 = escPct t ++ (parseBlock r).2 := by simp [parseBlock, Piece.msg]
      -- the message of a body without variables is the escaped text of the body
      have key : ∀ (r : Body), (parseBlock r).1 = [] → (parseBlock r).2 = escPct (subst σ r) := by
        intro r
        induction r with
        | nil => intro _; rfl
        | cons q r ihr =>
          intro hq
          cases q with
          | var n => simp [parseBlock, Piece.names] at hq
          | data u =>
            have hr' : (parseBlock r).1 = [] := by simpa [parseBlock, Piece.names] using hq
            have := ihr hr'
            simp only [parseBlock, List.flatMap_cons, Piece.msg, subst, escPct, List.flatMap_append] at this ⊢
            rw [this]
      rw [key _ h, undouble_escPct]

example : pyPercentFormat (lookupIn [(['n'], ['3'])]) (parseBlock [.data ['1','0','0','%',' ','{','%','('], .var ['n'], .data ['\n']]).2
    = .ok ['1','0','0','%',' ','{','%','(','3','\n'] := by rfl

/-! ## trimming -/

theorem pyWs_space : pyWs ' ' = true := by decide
theorem isNl_space : isNl ' ' = false := by decide
theorem isNl_ws (c : Char) (h : isNl c = true) : pyWs c = true := by
  have : c = '\n' := by simpa [isNl] using h
  subst this; decide

/-- **trimmed**: trimming twice is trimming once -/
theorem trimmed_spec_idempotent (t : Text) : trimWhitespace (trimWhitespace t) = trimWhitespace t :=
  trimG_idem pyWs isNl ' ' isNl_space isNl_ws t

/-- **trimmed**: no leading and no trailing whitespace -/
theorem trimmed_spec_no_outer_whitespace (t : Text) :
    (∀ c, (trimWhitespace t).head? = some c → pyWs c = false) ∧
    (∀ c, (trimWhitespace t).getLast? = some c → pyWs c = false) :=
  ⟨startsNonWs_trimG pyWs isNl ' ' t, endsNonWs_trimG pyWs isNl ' ' t⟩

/-- **trimmed**: no line break is left -/
theorem trimmed_spec_no_linebreak (t : Text) : '\n' ∉ trimWhitespace t := by
  intro h
  have := no_nl_collapse pyWs isNl ' ' isNl_space isNl_ws _ '\n' h
  simp [isNl] at this

/-- **trimmed**: the non-whitespace characters are kept, in order; only whitespace is removed or replaced -/
theorem trimmed_spec_keeps_text (t : Text) :
    (trimWhitespace t).filter (fun c => !pyWs c) = t.filter (fun c => !pyWs c) :=
  filter_trimG pyWs isNl ' ' pyWs_space t

/-- **trimmed**: between two words, a whitespace run containing a line break becomes exactly one space, any other
    run is kept unchanged -/
theorem trimmed_spec_runs (u g v : Text)
    (hu : u ≠ [] ∧ StartsNonWs pyWs u ∧ EndsNonWs pyWs u) (hg : g ≠ [] ∧ ∀ c ∈ g, pyWs c = true)
    (hv : v ≠ [] ∧ StartsNonWs pyWs v ∧ EndsNonWs pyWs v) :
    trimWhitespace (u ++ g ++ v) =
      trimWhitespace u ++ (if '\n' ∈ g then [' '] else g) ++ trimWhitespace v := by
  have := trimG_word_run_word pyWs isNl ' ' u g v hu.2.1 hu.2.2 hu.1 hg.2 hg.1 hv.2.1 hv.2.2 hv.1
  have hany : g.any isNl = true ↔ '\n' ∈ g := by simp [List.any_eq_true, isNl]
  unfold trimWhitespace
  rw [this]; simp only [hany]

example : trimWhitespace [' ','a',' ','\n','\t','b',' ',' ','c','\n'] = ['a',' ','b',' ',' ','c'] := by
  simp [trimWhitespace, trimG, stripL, stripR, collapse, pyWs, isNl]

end JinjaV.C33
