/-
  C33 — translation blocks render like their source text and are fully extractable.

  Model: Model/I18n.lean (transcription of ext.py), oracle: Spec/I18n.lean, helper lemmas: Lemmas/I18n.lean.
  Names: a block's variable names satisfy `NameOk` (no parentheses, no whitespace — true of identifiers).
-/
import JinjaV.Lemmas.I18n

namespace JinjaV.C33
open JinjaV.I18n JinjaV.Spec.I18n

/-! ## the percent round trip -/

/-- **C33 (`%` round trip, body level)**: for every body (literal text with `%`, `%(`, braces, line breaks, anything) and
    every mapping that has the referenced names, `message % mapping` is the source text with the variables
    substituted — `%` ↦ `%%` is undone by the formatting, `{{ n }}` ↦ `%(n)s` is filled in, nothing else is touched. -/
theorem trans_format_roundtrip (b : Body) (L : Text → Option Text) (σ : Text → Text)
    (hn : ∀ n ∈ (parseBlock b).1, NameOk n) (hl : ∀ n ∈ (parseBlock b).1, L n = some (σ n)) :
    pyPercentFormat L (parseBlock b).2 = .ok (subst σ b) := by
  rw [← msgS_syms, ← fill_syms]
  rw [← refsS_syms] at hn hl
  exact pyPercentFormat_msgS L σ (syms b) hn hl

/-- a referenced name that is missing from the mapping is a `KeyError`, not a silent gap: the hypothesis of the round
    trip is necessary -/
theorem missing_name_is_keyError (n : Text) (hn : NameOk n) (L : Text → Option Text) (h : L n = none) :
    pyPercentFormat L (parseBlock [.var n]).2 = .error (.keyError n) := by
  have := fmtGo_directive L n hn []
  simp only [List.append_nil, h] at this
  simpa [pyPercentFormat, parseBlock, Piece.msg] using this

/-- **old style without variables**: the `%%` are removed statically and the result is the source text -/
theorem oldstyle_static_undouble (b : Body) (σ : Text → Text) (h : (parseBlock b).1 = []) :
    undouble (parseBlock b).2 = subst σ b := by
  induction b with
  | nil => rfl
  | cons p r ih =>
    cases p with
    | var n => simp [parseBlock, Piece.names] at h
    | data t =>
      have hr : (parseBlock r).1 = [] := by simpa [parseBlock, Piece.names] using h
      have e1 : (parseBlock (Piece.data t :: r)).2 = escPct t ++ (parseBlock r).2 := by simp [parseBlock, Piece.msg]
      -- the message of a body without variables is the escaped text of the body
      have key : ∀ (r : Body), (parseBlock r).1 = [] → (parseBlock r).2 = escPct (subst σ r) := by
        intro r
        induction r with
        | nil => intro _; rfl
        | cons q r ihr =>
          intro hq
          cases q with
          | var n => simp [parseBlock, Piece.names] at hq
          | data u =>
            have hr' : (parseBlock r).1 = [] := by simpa [parseBlock, Piece.names] using hq
            have := ihr hr'
            simp only [parseBlock, List.flatMap_cons, Piece.msg, subst, escPct, List.flatMap_append] at this ⊢
            rw [this]
      rw [key _ h, undouble_escPct]

example : pyPercentFormat (lookupIn [(['n'], ['3'])]) (parseBlock [.data ['1','0','0','%',' ','{','%','('], .var ['n'], .data ['\n']]).2
    = .ok ['1','0','0','%',' ','{','%','(','3','\n'] := by rfl

/-! ## trimming -/

/-- **trimmed**: trimming twice is trimming once -/
theorem trimmed_spec_idempotent (t : Text) : trimWhitespace (trimWhitespace t) = trimWhitespace t :=
  trimG_idem pyWs isNl ' ' isNl_space isNl_ws t

/-- **trimmed**: no leading and no trailing whitespace -/
theorem trimmed_spec_no_outer_whitespace (t : Text) :
    (∀ c, (trimWhitespace t).head? = some c → pyWs c = false) ∧
    (∀ c, (trimWhitespace t).getLast? = some c → pyWs c = false) :=
  ⟨startsNonWs_trimG pyWs isNl ' ' t, endsNonWs_trimG pyWs isNl ' ' t⟩

/-- **trimmed**: no line break is left -/
theorem trimmed_spec_no_linebreak (t : Text) : '\n' ∉ trimWhitespace t := by
  intro h
  have := no_nl_collapse pyWs isNl ' ' isNl_space isNl_ws _ '\n' h
  simp [isNl] at this

/-- **trimmed**: the non-whitespace characters are kept, in order; only whitespace is removed or replaced -/
theorem trimmed_spec_keeps_text (t : Text) :
    (trimWhitespace t).filter (fun c => !pyWs c) = t.filter (fun c => !pyWs c) :=
  filter_trimG pyWs isNl ' ' pyWs_space t

/-- **trimmed**: between two words, a whitespace run containing a line break becomes exactly one space, any other
    run is kept unchanged -/
theorem trimmed_spec_runs (u g v : Text)
    (hu : u ≠ [] ∧ StartsNonWs pyWs u ∧ EndsNonWs pyWs u) (hg : g ≠ [] ∧ ∀ c ∈ g, pyWs c = true)
    (hv : v ≠ [] ∧ StartsNonWs pyWs v ∧ EndsNonWs pyWs v) :
    trimWhitespace (u ++ g ++ v) =
      trimWhitespace u ++ (if '\n' ∈ g then [' '] else g) ++ trimWhitespace v := by
  have := trimG_word_run_word pyWs isNl ' ' u g v hu.2.1 hu.2.2 hu.1 hg.2 hg.1 hv.2.1 hv.2.2 hv.1
  have hany : g.any isNl = true ↔ '\n' ∈ g := by simp [List.any_eq_true, isNl]
  unfold trimWhitespace
  rw [this]; simp only [hany]

/-- **trimming the message = trimming the source**: `_trim_whitespace` applied to the gettext message (with its `%%` and
    `%(name)s`) is the message of the block's source symbols trimmed by the same rule — placeholders are words -/
theorem trimmed_message_eq_trimmed_source (B : Body) (hn : ∀ n ∈ (parseBlock B).1, NameOk n) :
    trimWhitespace (parseBlock B).2 = msgS (trimS (syms B)) := by
  rw [← msgS_syms]
  exact trimWhitespace_msgS _ (by rw [refsS_syms]; exact hn)

example : trimWhitespace [' ','a',' ','\n','\t','b',' ',' ','c','\n'] = ['a',' ','b',' ',' ','c'] := by
  simp [trimWhitespace, trimG, stripL, stripR, collapse, pyWs, isNl]

/-! ## whole blocks: what `parse`/`_make_node` build renders to the source text -/

/-- every name referenced in the block's bodies -/
def refsOf (b : Block) : List Text :=
  (parseBlock b.singular).1 ++ (match b.plural with | some (_, pb) => (parseBlock pb).1 | none => [])

/-- the names are acceptable (identifiers are) -/
def NamesOk (b : Block) : Prop := ∀ n ∈ refsOf b, NameOk n

/-- the statement: whatever `parse` builds renders, under identity translations, to the oracle -/
def RenderStatement (cfg : Cfg) (ae : Bool) (σ : Text → Val) (b : Block) : Prop :=
  ∀ node, parseTrans cfg b = .ok node →
    renderNode ae identityTr σ node = .ok (expected cfg.policyTrimmed ae σ b)

/-- **C33 (block level, full strength)**: for every block that `parse` accepts — any header, context string, pluralize,
    trimmed flag or policy — every assignment of values, both gettext styles and both autoescape modes, the node that
    `_make_node` builds renders under identity translations to the block's source text (trimmed where trimming applies),
    the form chosen by the count, variables substituted (escaped under autoescape unless markup) -/
theorem render_eq_expected (cfg : Cfg) (ae : Bool) (σ : Text → Val) (b : Block)
    (hnames : NamesOk b) : RenderStatement cfg ae σ b := by
  intro node hok
  rw [expected_eq]
  rcases parseTrans_view cfg b node hok with ⟨hpl, rfl⟩ | ⟨pn, pb, k, ncn, hpl, hk, hncn, rfl⟩
  · -- no pluralize
    have hch : chosen σ b = b.singular := by unfold chosen; rw [hpl]
    have hrefs : refsOf b = (parseBlock b.singular).1 := by unfold refsOf; rw [hpl]; simp
    rw [renderNode_makeNode, hch]
    have := render_form cfg.newstyle ae σ b.singular (parseBlock b.singular).1 (headerVars b.header false)
      ((flag b.header).getD cfg.policyTrimmed) b.ctx none false (fun n hn => hn)
      (fun n hn => hnames n (by rw [hrefs]; exact hn)) (by simp)
    simpa using this
  · -- pluralize: the form is chosen by the count variable
    have hrefs : refsOf b = (parseBlock b.singular).1 ++ (parseBlock pb).1 := by unfold refsOf; rw [hpl]
    have hn' : ∀ n ∈ (parseBlock b.singular).1 ++ (parseBlock pb).1, NameOk n := fun n hn => hnames n (by rw [hrefs]; exact hn)
    have hncn' : ncn = true → some k = some kwNum := fun h => by rw [hncn h]
    rw [renderNode_makeNode]
    by_cases h1 : (σ k).isOne = true
    · have hch : chosen σ b = b.singular := by unfold chosen; rw [hpl, hk]; simp [h1]
      rw [hch]
      have := render_form cfg.newstyle ae σ b.singular ((parseBlock b.singular).1 ++ (parseBlock pb).1)
        (headerVars b.header false) ((flag b.header).getD cfg.policyTrimmed) b.ctx (some k) ncn
        (fun n hn => List.mem_append_left _ hn) hn' hncn'
      simpa [h1] using this
    · have hch : chosen σ b = pb := by unfold chosen; rw [hpl, hk]; simp [h1]
      rw [hch]
      have := render_form cfg.newstyle ae σ pb ((parseBlock b.singular).1 ++ (parseBlock pb).1)
        (headerVars b.header false) ((flag b.header).getD cfg.policyTrimmed) b.ctx (some k) ncn
        (fun n hn => List.mem_append_right _ hn) hn' hncn'
      simp only at this ⊢
      generalize ((keysOf (headerVars b.header false) ((parseBlock b.singular).1 ++ (parseBlock pb).1)).isEmpty &&
        !cfg.newstyle) = un at this ⊢
      cases un <;> simpa [h1] using this

/-- **new style and old style agree**: the two nodes built for the same block render the same text -/
theorem styles_agree (pt ae : Bool) (σ : Text → Val) (b : Block) (nNew nOld : Node)
    (h1 : parseTrans ⟨true, pt⟩ b = .ok nNew) (h2 : parseTrans ⟨false, pt⟩ b = .ok nOld)
    (hnames : NamesOk b) :
    renderNode ae identityTr σ nNew = renderNode ae identityTr σ nOld := by
  rw [render_eq_expected ⟨true, pt⟩ ae σ b hnames nNew h1, render_eq_expected ⟨false, pt⟩ ae σ b hnames nOld h2]

/-- the documented rule for the count variable -/
def countRule (b : Block) (pn : Option Text) : Option Text :=
  match pn with
  | some n => some n
  | none => (headerVars b.header false ++ (parseBlock b.singular).1).head?

/-- **plural choice**: with `pluralize`, the count variable is the explicitly named one, else the first variable
    declared in the tag, else the first one referenced in the singular text (`countName`, by definition); that is the
    variable `_make_node` passes as `n`; and the rendered text is the singular source iff its value `== 1` -/
theorem plural_choice (cfg : Cfg) (ae : Bool) (σ : Text → Val) (b : Block) (pn : Option Text) (pb : Body) (node : Node)
    (hpl : b.plural = some (pn, pb)) (hok : parseTrans cfg b = .ok node) (hnames : NamesOk b) :
    ∃ k, countName b = some k ∧ node.countKey = some k ∧
      countName b = countRule b pn ∧
      renderNode ae identityTr σ node =
        .ok (fill (fun n => (σ n).show ae)
          (TS ((flag b.header).getD cfg.policyTrimmed) (syms (if (σ k).isOne then b.singular else pb)))) := by
  have hr := render_eq_expected cfg ae σ b hnames node hok
  rcases parseTrans_view cfg b node hok with ⟨hpl', _⟩ | ⟨pn', pb', k, ncn, hpl', hk, _, hnode⟩
  · rw [hpl] at hpl'; simp at hpl'
  · refine ⟨k, hk, by rw [hnode]; simp [makeNode], ?_, ?_⟩
    · unfold countName countRule; rw [hpl]; cases pn <;> rfl
    · rw [hr, expected_eq]
      have : chosen σ b = if (σ k).isOne then b.singular else pb := by
        unfold chosen; rw [hpl, hk]
      rw [this]

/-- without `pluralize` no count is passed and the singular source is rendered -/
theorem no_plural_no_count (cfg : Cfg) (b : Block) (node : Node) (hpl : b.plural = none)
    (hok : parseTrans cfg b = .ok node) : node.countKey = none ∧ node.plural = none := by
  rcases parseTrans_view cfg b node hok with ⟨_, hnode⟩ | ⟨pn', pb', k, ncn, hpl', _⟩
  · rw [hnode]; simp [makeNode]
  · rw [hpl] at hpl'; simp at hpl'

/-- **`num` is injected** (new style): for a pluralised block `%(num)s` always resolves — to the variable `num` if the
    block has one, otherwise to the count -/
theorem num_injected (ae : Bool) (σ : Text → Val) (keys : List Text) (ctx : Option Text) (k : Text) (ncn : Bool)
    (hncn : ncn = true → k = kwNum) :
    lookupIn (newMap ae σ keys ctx (some k) ncn) kwNum =
      some ((σ (if kwNum ∈ keys then kwNum else k)).show ae) := by
  by_cases hmem : kwNum ∈ keys
  · rw [lookupIn_newMap ae σ keys ctx (some k) ncn (fun h => by rw [hncn h]) kwNum hmem]; simp [hmem]
  · unfold newMap
    rw [List.append_assoc, lookupIn_append, lookupIn_map_not_mem _ (fun k => (σ k).show ae) kwNum
      (fun h => hmem (List.mem_filter.mp h).1)]
    simp only [hmem, if_false]
    rw [lookupIn_append]
    have : ¬ kwContext = kwNum := by decide
    cases ctx <;> simp [lookupIn_cons, lookupIn, this]

/-- **context strings** route to `pgettext`/`npgettext`, `pluralize` to the `n` variants; the callable receives
    context, singular, plural in this order -/
theorem context_routing (cfg : Cfg) (b : Block) (node : Node) (hok : parseTrans cfg b = .ok node) :
    node.ctx = b.ctx ∧
    node.func = (match b.ctx, b.plural with
      | none, none => Func.gettext
      | some _, none => Func.pgettext
      | none, some _ => Func.ngettext
      | some _, some _ => Func.npgettext) ∧
    node.recorded.strings = (match b.ctx with | some c => [c] | none => []) ++ [node.singular] ++
      (match node.plural with | some p => [p] | none => []) ∧
    (node.plural.isSome = b.plural.isSome) := by
  rcases parseTrans_view cfg b node hok with ⟨hpl, hnode⟩ | ⟨pn, pb, k, ncn, hpl, _, _, hnode⟩
  · rw [hnode, hpl]; cases b.ctx <;> simp [makeNode, Node.recorded]
  · rw [hnode, hpl]
    generalize keysOf (headerVars b.header false) ((parseBlock b.singular).1 ++ (parseBlock pb).1) = ks
    cases ks <;> cases b.ctx <;> cases cfg.newstyle <;> simp [makeNode, Node.recorded]

/-- **autoescape**: only variable values are escaped — a plain string value is inserted as `escape(value)`, a markup
    value and an integer as they are, without autoescape everything raw; and the literal text of the block is never
    escaped (it is template text): a block without variables renders the same with autoescape on and off -/
theorem autoescape_vars :
    (∀ t, (Val.str t false).show true = escape t) ∧ (∀ t, (Val.str t true).show true = t) ∧
    (∀ i, (Val.int i).show true = (Val.int i).show false) ∧ (∀ t s, (Val.str t s).show false = t) ∧
    (∀ pt σ b, refsOf b = [] → expected pt true σ b = expected pt false σ b) := by
  refine ⟨fun _ => rfl, fun _ => rfl, fun _ => rfl, fun _ _ => rfl, ?_⟩
  intro pt σ b hr
  rw [expected_eq, expected_eq]
  apply fill_no_refs
  apply refsS_TS_nil
  rw [refsS_syms]
  have h1 : (parseBlock b.singular).1 = [] := by
    unfold refsOf at hr; exact (List.append_eq_nil_iff.mp hr).1
  unfold chosen
  cases hpl : b.plural with
  | none => simpa using h1
  | some p =>
    obtain ⟨pn, pb⟩ := p
    have h2 : (parseBlock pb).1 = [] := by
      unfold refsOf at hr; rw [hpl] at hr; exact (List.append_eq_nil_iff.mp hr).2
    split
    · split <;> simp_all
    · simp_all
    · simp_all

example : escape ['<','a','&','"','>'] = ['&','l','t',';','a','&','a','m','p',';','&','#','3','4',';','&','g','t',';'] := by rfl

/-! ## extraction -/

/-- **extraction is complete**: for every template (node list), every call a gettext callable can receive at render —
    i.e. every `Call` node whose callee is one of the extracted function names — is covered by an entry that
    `extract_from_ast` yields for the same node list and the same options: same function, the received strings as
    leading arguments -/
theorem extraction_complete (cfg : Cfg) (fns : List Text) (nodes : List TNode) (calls : List ECall)
    (_h : callsOf cfg nodes = .ok calls) (c : ECall) (hc : c ∈ calls) (hf : c.func ∈ fns) :
    covered (extractFromAst fns calls) c.recorded = true := by
  unfold covered
  rw [List.any_eq_true]
  refine ⟨{ func := c.func, strings := c.args.map (fun | .str t => some t | .dyn => none) ++ List.replicate c.nkw none }, ?_, ?_⟩
  · unfold extractFromAst
    rw [List.mem_map]
    exact ⟨c, List.mem_filter.mpr ⟨hc, by simpa using hf⟩, rfl⟩
  · simp only [ECall.recorded, beq_self_eq_true, Bool.true_and, beq_iff_eq]
    generalize c.args = args
    induction args with
    | nil => simp [leadingStrs]
    | cons a r ih =>
      cases a with
      | dyn => simp [leadingStrs]
      | str t => simp only [leadingStrs, List.map_cons, List.cons_append, List.length_cons, List.take_succ_cons, ih]

/-- every trans block of a template is extractable: the message its gettext callable receives at render (function,
    context, singular, plural) is covered by the extraction of the same template with the same options, as soon as
    the four gettext names are among the extracted function names -/
theorem extraction_complete_trans (cfg : Cfg) (fns : List Text) (nodes : List TNode) (calls : List ECall)
    (h : callsOf cfg nodes = .ok calls) (b : Block) (hb : TNode.trans b ∈ nodes)
    (hf : ∀ f : Func, f.name ∈ fns) :
    ∃ n, parseTrans cfg b = .ok n ∧ covered (extractFromAst fns calls) n.recorded = true := by
  obtain ⟨n, hn, hm⟩ := trans_call_mem cfg nodes calls h b hb
  refine ⟨n, hn, ?_⟩
  rw [← toCall_recorded]
  exact extraction_complete cfg fns nodes calls h n.toCall hm (by simpa [Node.toCall] using hf n.func)

/-! ## the formerly failing shape (finding fixed in /repo by a1dc827) -/

/-- `{% trans a=1 %}100%{% endtrans %}`: a variable declared in the tag, none referenced, a literal `%` -/
def witnessBlock : Block :=
  { ctx := none, header := [(['a'], true)], singular := [.data ['1','0','0','%']], plural := none }

/-- **regression guard**: old style, variables declared but not referenced, `%` in the text.  Before a1dc827 `_make_node`
    un-doubled `%%` (no variable *referenced*) and still applied `% {'a': …}` (variables *declared*): `ValueError`.  Now the
    message keeps `100%%`, is formatted with the dict, and the block renders its source text in both styles. -/
theorem declared_unreferenced_percent_renders_source (ns ae : Bool) (σ : Text → Val) :
    (∃ n, parseTrans ⟨ns, false⟩ witnessBlock = .ok n ∧ n.singular = ['1','0','0','%','%'] ∧
      (ns = false → n.modKeys = some [['a']])) ∧
    RenderStatement ⟨ns, false⟩ ae σ witnessBlock ∧
    expected false ae σ witnessBlock = ['1','0','0','%'] := by
  refine ⟨?_, ?_, rfl⟩
  · cases ns
    · exact ⟨_, rfl, rfl, fun _ => rfl⟩
    · exact ⟨_, rfl, rfl, fun h => by simp at h⟩
  · apply render_eq_expected
    intro n hn; simp [refsOf, witnessBlock, parseBlock, Piece.names] at hn

/-- the look-alike `{% trans a=1 %}50%(a)s{% endtrans %}` (rendered `501` before the fix) renders `50%(a)s` -/
example : (match parseTrans ⟨false, false⟩
      { ctx := none, header := [(['a'], true)], singular := [.data ['5','0','%','(','a',')','s']], plural := none } with
    | .ok n => renderNode false identityTr (fun _ => .int 1) n
    | .error _ => .error .unsupported) = .ok ['5','0','%','(','a',')','s'] := by rfl

/-! ## non-vacuity: concrete instances of the hypotheses -/

/-- `{% trans "menu" n=…, user %}{{ n }} file 100%{% pluralize %}{{ n }} files <b>{{ user }}</b>{% endtrans %}` -/
def exBlock : Block :=
  { ctx := some ['m','e','n','u'], header := [(['n'], true), (['u','s','e','r'], false)],
    singular := [.var ['n'], .data [' ','f','i','l','e',' ','1','0','0','%']],
    plural := some (none, [.var ['n'], .data [' ','f','i','l','e','s',' ','<','b','>'], .var ['u','s','e','r'], .data ['<','/','b','>']]) }

example : NamesOk exBlock ∧ (∃ n, parseTrans ⟨false, false⟩ exBlock = .ok n) ∧
    countName exBlock = some ['n'] := by
  refine ⟨?_, ⟨_, rfl⟩, rfl⟩
  intro n hn
  simp [refsOf, exBlock, parseBlock, Piece.names] at hn
  rcases hn with rfl | rfl | rfl <;> exact ⟨by decide, by decide, by decide⟩

/-- what the theorem says on it: count 2, autoescape on, `user = "<x>"` → plural source with the value escaped -/
example : (match parseTrans ⟨false, false⟩ exBlock with
    | .ok n => renderNode true identityTr (fun k => if k = ['n'] then .int 2 else .str ['<','x','>'] false) n
    | .error _ => .error .unsupported) =
    .ok ['2',' ','f','i','l','e','s',' ','<','b','>','&','l','t',';','x','&','g','t',';','<','/','b','>'] := by rfl

/-- a template for `extraction_complete`: `{{ _("hi") }}` followed by the block above; the callables receive
    `gettext("hi")` and `npgettext("menu", …)`, both covered -/
example : (match callsOf ⟨true, false⟩ [.call ⟨['_'], [.str ['h','i']], 0⟩, .trans exBlock] with
    | .ok calls => calls.all fun c => covered (extractFromAst [['_'], Func.gettext.name, Func.ngettext.name, Func.pgettext.name, Func.npgettext.name] calls) c.recorded
    | .error _ => false) = true := by rfl

/-- "same options" matters: a block without variables and with `%` is extracted as `100%%` under new style but
    received as `100%` under old style -/
example : (match parseTrans ⟨true, false⟩ { witnessBlock with header := [] }, parseTrans ⟨false, false⟩ { witnessBlock with header := [] } with
    | .ok n1, .ok n2 => covered (extractFromAst [Func.gettext.name] [n1.toCall]) n2.recorded
    | _, _ => true) = false := by rfl

end JinjaV.C33
