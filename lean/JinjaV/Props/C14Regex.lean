/-
  C14 — the tie of the hand scanners to the source: the pattern strings and flags of `integer_re`, `float_re`, `string_re`
  READ from lexer.py on every run (Gen/LiteralRegex.lean, translate/literal_regex.py) are the patterns the scanners of
  Model/Lex.lean transcribe.  A change of a regex breaks this proof; the check then runs its exhaustive differential
  search at the thorough budget to find a spelling on which the property fails.
-/
import JinjaV.Model.Literal
import JinjaV.Gen.LiteralRegex
namespace JinjaV.C14Regex
open JinjaV.Literal JinjaV.Gen.LiteralRegex

theorem literal_regexes_pinned :
    integerPattern = scannedIntegerRe ∧ integerFlags = scannedIntegerFlags ∧
    floatPattern = scannedFloatRe ∧ floatFlags = scannedFloatFlags ∧
    stringPattern = scannedStringRe ∧ stringFlags = scannedStringFlags := by
  decide

-- the comparison is not vacuous: a loosened pattern is a different string
example : scannedIntegerRe.length = 63 ∧ "(0b(_*[0-1])+|0o(_?[0-7])+|0x(_?[\\da-f])+|[1-9](_?\\d)*|0(_?0)*)" ≠ scannedIntegerRe := by decide

end JinjaV.C14Regex
