/-
  C20 — sandbox operator interception sees every intercepted operator application (and only those),
  with the same operands, and the result is the hook's result.
-/
import JinjaV.Lemmas.Expr
import JinjaV.Gen.ExprTables
import JinjaV.Props.C02

namespace JinjaV.C20
open JinjaV.Expr

variable (c : CCfg) (ae : Bool) (ctx : Ctx)

def intercepted (c : CCfg) : Ev → Prop
  | .bin op _ _ => c.sandboxed = true ∧ op ∈ c.icBin
  | .un op _ => c.sandboxed = true ∧ op ∈ c.icUn

theorem bind_log {α β} (l : List Ev) (a : α) (f : α → M β) :
    (M.mk l (Except.ok a) >>= f) = M.mk (l ++ (f a).1) (f a).2 := rfl

theorem bind_err {α β} (l : List Ev) (e : Err) (f : α → M β) :
    (M.mk l (Except.error e) >>= f) = M.mk l (Except.error e) := rfl

theorem mk_eta {α} (m : M α) : M.mk m.1 m.2 = m := rfl
theorem mk_fst {α} (l : List Ev) (r : Except Err α) : (M.mk l r).1 = l := rfl
theorem mk_snd {α} (l : List Ev) (r : Except Err α) : (M.mk l r).2 = r := rfl

/-- **result_is_hook / same operands**: an intercepted binary operator is applied by the hook, to the operand
    values in evaluation order, after both operands were evaluated, and the hook's answer is the result -/
theorem bin_routed (op : BinOp) (a b : Expr) (la lb : List Ev) (av bv : Val)
    (hs : c.sandboxed = true) (hop : op ∈ c.icBin)
    (ha : eval c ae ctx a = M.mk la (.ok av)) (hb : eval c ae ctx b = M.mk lb (.ok bv)) :
    eval c ae ctx (.bin op a b) = M.mk (la ++ (lb ++ [Ev.bin op av bv])) (ctx.hookBin op av bv) := by
  have hc : (c.sandboxed && decide (op ∈ c.icBin)) = true := by simp [hs, hop]
  simp only [eval, ha, hb, bind_log, applyBin, hc, if_true]
  rfl

theorem un_routed (op : UnOp) (a : Expr) (la : List Ev) (av : Val)
    (hs : c.sandboxed = true) (hop : op ∈ c.icUn) (ha : eval c ae ctx a = M.mk la (.ok av)) :
    eval c ae ctx (.un op a) = M.mk (la ++ [Ev.un op av]) (ctx.hookUn op av) := by
  have hc : (c.sandboxed && decide (op ∈ c.icUn)) = true := by simp [hs, hop]
  simp only [eval, ha, bind_log, applyUn, hc, if_true]
  rfl

/-- an operator that is not intercepted is applied directly: no event, Python's result -/
theorem bin_not_routed (op : BinOp) (a b : Expr) (la lb : List Ev) (av bv : Val)
    (hno : ¬ (c.sandboxed = true ∧ op ∈ c.icBin))
    (ha : eval c ae ctx a = M.mk la (.ok av)) (hb : eval c ae ctx b = M.mk lb (.ok bv)) :
    eval c ae ctx (.bin op a b) = M.mk (la ++ (lb ++ [])) (pyBin op av bv) := by
  have hc : (c.sandboxed && decide (op ∈ c.icBin)) = false := by
    simp only [Bool.and_eq_false_iff, decide_eq_false_iff_not]
    by_cases h : c.sandboxed = true
    · right; exact fun hm => hno ⟨h, hm⟩
    · left; simpa using h
  simp only [eval, ha, hb, bind_log, applyBin, hc]
  rfl

/-- the guard read from nodes.py: an intercepted operator application is never folded, whatever its operands -/
theorem intercepted_never_folded (t : Tables) (op : BinOp) (a b : Expr)
    (hs : c.sandboxed = true) (hop : op ∈ c.icBin) : asConst Guards.all t c (.bin op a b) = none := by
  simp [asConst, Guards.all, hs, hop]

theorem intercepted_unary_never_folded (t : Tables) (op : UnOp) (a : Expr)
    (hs : c.sandboxed = true) (hop : op ∈ c.icUn) : asConst Guards.all t c (.un op a) = none := by
  simp [asConst, Guards.all, hs, hop]

/-- **intercept_complete** for the compiled pipeline: with the guards and tables read from the source on this run,
    optimisation and output folding leave the *sequence of hook events* (and the result) of every expression unchanged —
    in particular applications on constants still reach the hook -/
theorem folding_preserves_events (hc : C08.Coherent c ae) (optimized : Bool) (e : Expr) :
    (compileRender Gen.ExprTables.guards Gen.ExprTables.tables c optimized ae ctx e).1 = (renderExpr c ae ctx e).1 := by
  rw [C02.compiled_is_reference c ae ctx hc optimized e]

theorem mem_bind {α β} (m : M α) (f : α → M β) (ev : Ev) (h : ev ∈ (m >>= f).1) :
    ev ∈ m.1 ∨ ∃ a, m.2 = .ok a ∧ ev ∈ (f a).1 := by
  rw [← mk_eta m] at h
  cases hr : m.2 with
  | error e => left; rw [hr, bind_err] at h; exact h
  | ok a =>
    rw [hr, bind_log, mk_fst] at h
    simp only [List.mem_append] at h
    rcases h with h | h
    · left; exact h
    · right; exact ⟨a, rfl, h⟩

theorem lift_log {α} (x : Except Err α) : (M.lift x : M α).1 = [] := rfl
theorem pure_log {α} (a : α) : (pure a : M α).1 = [] := rfl

theorem applyBin_events (op : BinOp) (a b : Val) (ev : Ev) (h : ev ∈ (applyBin c ctx op a b).1) : intercepted c ev := by
  unfold applyBin at h
  split at h
  · rename_i hc
    simp only [Bool.and_eq_true, decide_eq_true_eq] at hc
    rcases mem_bind _ _ ev h with h | ⟨_, _, h⟩
    · simp [M.emit] at h; subst h; exact hc
    · simp [lift_log] at h
  · simp [lift_log] at h

theorem applyUn_events (op : UnOp) (a : Val) (ev : Ev) (h : ev ∈ (applyUn c ctx op a).1) : intercepted c ev := by
  unfold applyUn at h
  split at h
  · rename_i hc
    simp only [Bool.and_eq_true, decide_eq_true_eq] at hc
    rcases mem_bind _ _ ev h with h | ⟨_, _, h⟩
    · simp [M.emit] at h; subst h; exact hc
    · simp [lift_log] at h
  · simp [lift_log] at h

/- **intercept_only**: every event in the log of any expression is an application of an operator that the
    sandboxed environment intercepts — operators outside the sets never reach the hook -/
mutual
theorem events_only_intercepted : (e : Expr) → ∀ ev ∈ (eval c ae ctx e).1, intercepted c ev
  | .const _, ev, h => by simp [eval, pure_log] at h
  | .name _, ev, h => by simp [eval, pure_log] at h
  | .tuple es, ev, h => by
    simp only [eval] at h
    rcases mem_bind _ _ ev h with h | ⟨_, _, h⟩
    · exact events_list es ev h
    · simp [pure_log] at h
  | .list es, ev, h => by
    simp only [eval] at h
    rcases mem_bind _ _ ev h with h | ⟨_, _, h⟩
    · exact events_list es ev h
    · simp [pure_log] at h
  | .dict kvs, ev, h => by
    simp only [eval] at h
    rcases mem_bind _ _ ev h with h | ⟨_, _, h⟩
    · exact events_pairs kvs ev h
    · simp [lift_log] at h
  | .cond t a b, ev, h => by
    simp only [eval] at h
    rcases mem_bind _ _ ev h with h | ⟨tv, _, h⟩
    · exact events_only_intercepted t ev h
    · split at h
      · exact events_only_intercepted a ev h
      · exact events_else b ev h
  | .and_ a b, ev, h => by
    simp only [eval] at h
    rcases mem_bind _ _ ev h with h | ⟨av, _, h⟩
    · exact events_only_intercepted a ev h
    · split at h
      · exact events_only_intercepted b ev h
      · simp [pure_log] at h
  | .or_ a b, ev, h => by
    simp only [eval] at h
    rcases mem_bind _ _ ev h with h | ⟨av, _, h⟩
    · exact events_only_intercepted a ev h
    · split at h
      · simp [pure_log] at h
      · exact events_only_intercepted b ev h
  | .not_ a, ev, h => by
    simp only [eval] at h
    rcases mem_bind _ _ ev h with h | ⟨_, _, h⟩
    · exact events_only_intercepted a ev h
    · simp [pure_log] at h
  | .compare e ops, ev, h => by
    simp only [eval] at h
    rcases mem_bind _ _ ev h with h | ⟨v, _, h⟩
    · exact events_only_intercepted e ev h
    · exact events_cmp v ops ev h
  | .bin op a b, ev, h => by
    simp only [eval] at h
    rcases mem_bind _ _ ev h with h | ⟨av, _, h⟩
    · exact events_only_intercepted a ev h
    · rcases mem_bind _ _ ev h with h | ⟨bv, _, h⟩
      · exact events_only_intercepted b ev h
      · exact applyBin_events c ctx op av bv ev h
  | .concat es, ev, h => by
    simp only [eval] at h
    rcases mem_bind _ _ ev h with h | ⟨_, _, h⟩
    · exact events_list es ev h
    · simp [pure_log] at h
  | .un op a, ev, h => by
    simp only [eval] at h
    rcases mem_bind _ _ ev h with h | ⟨av, _, h⟩
    · exact events_only_intercepted a ev h
    · exact applyUn_events c ctx op av ev h
  | .getattr e a, ev, h => by
    simp only [eval] at h
    rcases mem_bind _ _ ev h with h | ⟨_, _, h⟩
    · exact events_only_intercepted e ev h
    · simp [lift_log] at h
  | .getitem e i, ev, h => by
    simp only [eval] at h
    rcases mem_bind _ _ ev h with h | ⟨_, _, h⟩
    · exact events_only_intercepted e ev h
    · rcases mem_bind _ _ ev h with h | ⟨_, _, h⟩
      · exact events_only_intercepted i ev h
      · simp [lift_log] at h
  | .slice e a b s, ev, h => by
    simp only [eval] at h
    rcases mem_bind _ _ ev h with h | ⟨_, _, h⟩
    · exact events_only_intercepted e ev h
    · rcases mem_bind _ _ ev h with h | ⟨_, _, h⟩
      · exact events_opt a ev h
      · rcases mem_bind _ _ ev h with h | ⟨_, _, h⟩
        · exact events_opt b ev h
        · rcases mem_bind _ _ ev h with h | ⟨_, _, h⟩
          · exact events_opt s ev h
          · simp [lift_log] at h
  | .call f args, ev, h => by
    simp only [eval] at h
    rcases mem_bind _ _ ev h with h | ⟨_, _, h⟩
    · exact events_only_intercepted f ev h
    · rcases mem_bind _ _ ev h with h | ⟨_, _, h⟩
      · exact events_list args ev h
      · simp [lift_log] at h
  | .filter e name args, ev, h => by
    simp only [eval] at h
    rcases mem_bind _ _ ev h with h | ⟨_, _, h⟩
    · exact events_only_intercepted e ev h
    · rcases mem_bind _ _ ev h with h | ⟨_, _, h⟩
      · exact events_list args ev h
      · simp [lift_log] at h
  | .test e name args, ev, h => by
    simp only [eval] at h
    rcases mem_bind _ _ ev h with h | ⟨_, _, h⟩
    · exact events_only_intercepted e ev h
    · rcases mem_bind _ _ ev h with h | ⟨_, _, h⟩
      · exact events_list args ev h
      · simp [lift_log] at h
theorem events_list : (es : List Expr) → ∀ ev ∈ (evalList c ae ctx es).1, intercepted c ev
  | [], ev, h => by simp [evalList, pure_log] at h
  | e :: es, ev, h => by
    simp only [evalList] at h
    rcases mem_bind _ _ ev h with h | ⟨_, _, h⟩
    · exact events_only_intercepted e ev h
    · rcases mem_bind _ _ ev h with h | ⟨_, _, h⟩
      · exact events_list es ev h
      · simp [pure_log] at h
theorem events_pairs : (kvs : List (Expr × Expr)) → ∀ ev ∈ (evalPairs c ae ctx kvs).1, intercepted c ev
  | [], ev, h => by simp [evalPairs, pure_log] at h
  | (k, v) :: rest, ev, h => by
    simp only [evalPairs] at h
    rcases mem_bind _ _ ev h with h | ⟨_, _, h⟩
    · exact events_only_intercepted k ev h
    · rcases mem_bind _ _ ev h with h | ⟨_, _, h⟩
      · exact events_only_intercepted v ev h
      · rcases mem_bind _ _ ev h with h | ⟨_, _, h⟩
        · exact events_pairs rest ev h
        · simp [pure_log] at h
theorem events_opt : (o : Option Expr) → ∀ ev ∈ (evalOpt c ae ctx o).1, intercepted c ev
  | none, ev, h => by simp [evalOpt, pure_log] at h
  | some e, ev, h => by
    simp only [evalOpt] at h
    rcases mem_bind _ _ ev h with h | ⟨_, _, h⟩
    · exact events_only_intercepted e ev h
    · simp [pure_log] at h
theorem events_else : (o : Option Expr) → ∀ ev ∈ (evalElse c ae ctx o).1, intercepted c ev
  | none, ev, h => by simp [evalElse, pure_log] at h
  | some e, ev, h => by simp only [evalElse] at h; exact events_only_intercepted e ev h
theorem events_cmp (v : Val) : (ops : List (CmpOp × Expr)) → ∀ ev ∈ (evalCmp c ae ctx v ops).1, intercepted c ev
  | [], ev, h => by simp [evalCmp, pure_log] at h
  | (op, e) :: rest, ev, h => by
    simp only [evalCmp] at h
    rcases mem_bind _ _ ev h with h | ⟨w, _, h⟩
    · exact events_only_intercepted e ev h
    · rcases mem_bind _ _ ev h with h | ⟨r, _, h⟩
      · simp [lift_log] at h
      · split at h
        · exact events_cmp w rest ev h
        · simp [pure_log] at h
end

/-- an environment that is not sandboxed, or intercepts nothing, never calls the hook -/
theorem no_interception_no_events (h : c.sandboxed = false ∨ (c.icBin = [] ∧ c.icUn = [])) (e : Expr) :
    (eval c ae ctx e).1 = [] := by
  apply List.eq_nil_iff_forall_not_mem.mpr
  intro ev hev
  have := events_only_intercepted c ae ctx e ev hev
  cases ev with
  | bin op l r => rcases h with h | ⟨h, _⟩ <;> simp [intercepted, h] at this
  | un op v => rcases h with h | ⟨_, h⟩ <;> simp [intercepted, h] at this

/-- `3 + 4` under a sandbox intercepting `+` with a hook that answers 99: one event with operands 3 and 4, result 99 -/
example (ctx : Ctx) (h : ctx.hookBin = fun _ _ _ => .ok (.int 99)) :
    eval ⟨false, false, true, [.add], [], false⟩ false ctx (.bin .add (.const (.int 3)) (.const (.int 4)))
      = M.mk [Ev.bin .add (.int 3) (.int 4)] (.ok (.int 99)) := by
  have := bin_routed ⟨false, false, true, [.add], [], false⟩ false ctx .add (.const (.int 3)) (.const (.int 4)) [] []
    (.int 3) (.int 4) rfl (by simp) (by simp [eval]; rfl) (by simp [eval]; rfl)
  simpa [h] using this

end JinjaV.C20
