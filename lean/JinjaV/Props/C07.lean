/-
  C07 — the loop variable reports correct iteration state for every iterable.

  For every item list, sized or unsized iterable, and *every* finite sequence of
  `next`/attribute operations, the model of `LoopContext` (look-ahead slot, lazily
  cached length) returns exactly what the documented meaning (Spec/Loop.lean)
  prescribes; in particular the items handed out are the input items, each once, in
  order, whatever look-ahead queries are interleaved.
-/
import JinjaV.Model.Loop
import JinjaV.Spec.Loop

namespace JinjaV.C07
open JinjaV.Loop JinjaV.SpecLoop

structure Inv (s : St) (sp : Sp) : Prop where
  idx : s.index = sp.k
  le : sp.k ≤ sp.xs.length
  rest : s.after.toList ++ s.iter = sp.xs.drop sp.k
  cur : s.current = (if sp.k = 0 then none else sp.xs[sp.k - 1]?)
  bef : s.before = (if sp.k ≤ 1 then none else sp.xs[sp.k - 2]?)
  len : ∀ n, s.length = some n → n = sp.xs.length
  sized : ∀ n, s.sizedLen = some n → n = sp.xs.length
  lc : s.lastChanged = sp.lastChanged
  depth : s.depth0 = sp.depth0

theorem inv_init (xs : List V) (sized : Bool) (d : Nat) :
    Inv (Loop.init xs sized d) (SpecLoop.init xs d) := by
  constructor <;> simp [Loop.init, SpecLoop.init]

private theorem head_rest {s sp} (h : Inv s sp) :
    sp.xs[sp.k]? = (s.after.toList ++ s.iter).head? := by
  rw [h.rest, List.head?_drop]

private theorem tail_rest {s sp} (h : Inv s sp) :
    (s.after.toList ++ s.iter).tail = sp.xs.drop (sp.k + 1) := by
  rw [h.rest, List.tail_drop]

private theorem len_rest {s sp} (h : Inv s sp) :
    (s.after.toList ++ s.iter).length = sp.xs.length - sp.k := by
  rw [h.rest, List.length_drop]

theorem peekNext_ok {s sp} (h : Inv s sp) :
    Inv (peekNext s).1 sp ∧ (peekNext s).2 = sp.xs[sp.k]? := by
  have hh := head_rest h
  cases ha : s.after with
  | some a =>
    have e : peekNext s = (s, some a) := by simp [peekNext, ha]
    have : sp.xs[sp.k]? = some a := by rw [hh, ha]; rfl
    rw [e, this]; exact ⟨h, rfl⟩
  | none =>
    cases hi : s.iter with
    | nil =>
      have e : peekNext s = (s, none) := by simp [peekNext, ha, hi]
      have : sp.xs[sp.k]? = none := by rw [hh, ha, hi]; rfl
      rw [e, this]; exact ⟨h, rfl⟩
    | cons x r =>
      have e : peekNext s = ({ s with iter := r, after := some x }, some x) := by
        simp [peekNext, ha, hi]
      have : sp.xs[sp.k]? = some x := by rw [hh, ha, hi]; rfl
      rw [e, this]
      refine ⟨?_, rfl⟩
      have hr := h.rest
      rw [ha, hi] at hr
      exact { h with rest := hr }

theorem getLength_ok {s sp} (h : Inv s sp) :
    Inv (getLength s).1 sp ∧ (getLength s).2 = sp.xs.length := by
  cases hl : s.length with
  | some n =>
    have e : getLength s = (s, n) := by simp [getLength, hl]
    rw [e]; exact ⟨h, h.len n hl⟩
  | none =>
    cases hs : s.sizedLen with
    | some n =>
      have e : getLength s = ({ s with length := some n }, n) := by simp [getLength, hl, hs]
      have hn := h.sized n hs
      rw [e]
      refine ⟨{ h with len := ?_ }, hn⟩
      intro m hm
      have : n = m := Option.some.inj hm
      omega
    | none =>
      have e : getLength s = ({ s with length := some (s.iter.length + s.index +
          (if s.after.isSome then 1 else 0)) }, s.iter.length + s.index +
          (if s.after.isSome then 1 else 0)) := by simp [getLength, hl, hs]
      have hlen := len_rest h
      have hidx := h.idx
      have hle := h.le
      have e2 : s.iter.length + s.index + (if s.after.isSome then 1 else 0) = sp.xs.length := by
        cases ha : s.after <;> simp [ha] at hlen ⊢ <;> omega
      rw [e]
      refine ⟨{ h with len := ?_ }, e2⟩
      intro m hm
      have := Option.some.inj hm
      omega

theorem next_ok {s sp} (h : Inv s sp) :
    Inv (Loop.next s).1 (SpecLoop.step sp .next).1 ∧ (Loop.next s).2 = (SpecLoop.step sp .next).2 := by
  have hh := head_rest h
  have ht := tail_rest h
  have hidx := h.idx
  have hle := h.le
  have hcur := h.cur
  have adv : ∀ (v : V) (s' : St), sp.xs[sp.k]? = some v →
      s'.index = s.index + 1 → s'.after.toList ++ s'.iter = (s.after.toList ++ s.iter).tail →
      s'.current = some v → s'.before = s.current → s'.length = s.length →
      s'.sizedLen = s.sizedLen → s'.lastChanged = s.lastChanged → s'.depth0 = s.depth0 →
      Inv s' { sp with k := sp.k + 1 } := by
    intro v s' hv h1 h2 h3 h4 h5 h6 h7 h8
    have hlt : sp.k < sp.xs.length := by
      rcases Nat.lt_or_ge sp.k sp.xs.length with h | h
      · exact h
      · rw [List.getElem?_eq_none h] at hv; simp at hv
    constructor
    · show s'.index = sp.k + 1; omega
    · show sp.k + 1 ≤ sp.xs.length; omega
    · show s'.after.toList ++ s'.iter = sp.xs.drop (sp.k + 1); rw [h2, ht]
    · show s'.current = if sp.k + 1 = 0 then none else sp.xs[sp.k + 1 - 1]?
      simp [h3, hv]
    · show s'.before = if sp.k + 1 ≤ 1 then none else sp.xs[sp.k + 1 - 2]?
      rw [h4, hcur]
      by_cases hk : sp.k = 0
      · simp [hk]
      · have : ¬ (sp.k + 1 ≤ 1) := by omega
        simp only [hk, this, if_false]
        congr 1
    · intro n hn; rw [h5] at hn; exact h.len n hn
    · intro n hn; rw [h6] at hn; exact h.sized n hn
    · show s'.lastChanged = sp.lastChanged; rw [h7, h.lc]
    · show s'.depth0 = sp.depth0; rw [h8, h.depth]
  cases ha : s.after with
  | some a =>
    have e : Loop.next s = ({ s with after := none, index := s.index + 1, before := s.current, current := some a }, .item a) := by simp [Loop.next, ha]
    have hv : sp.xs[sp.k]? = some a := by rw [hh, ha]; rfl
    have es : SpecLoop.step sp .next = ({ sp with k := sp.k + 1 }, .item a) := by
      simp [SpecLoop.step, hv]
    rw [e, es]
    exact ⟨adv a _ hv rfl (by rw [ha]; rfl) rfl rfl rfl rfl rfl rfl, rfl⟩
  | none =>
    cases hi : s.iter with
    | nil =>
      have e : Loop.next s = (s, .stop) := by simp [Loop.next, ha, hi]
      have hv : sp.xs[sp.k]? = none := by rw [hh, ha, hi]; rfl
      have es : SpecLoop.step sp .next = (sp, .stop) := by simp [SpecLoop.step, hv]
      rw [e, es]; exact ⟨h, rfl⟩
    | cons x r =>
      have e : Loop.next s = ({ s with iter := r, index := s.index + 1, before := s.current, current := some x }, .item x) := by simp [Loop.next, ha, hi]
      have hv : sp.xs[sp.k]? = some x := by rw [hh, ha, hi]; rfl
      have es : SpecLoop.step sp .next = ({ sp with k := sp.k + 1 }, .item x) := by
        simp [SpecLoop.step, hv]
      rw [e, es]
      exact ⟨adv x _ hv rfl (by rw [ha, hi]; rfl) rfl rfl rfl rfl rfl rfl, rfl⟩

/-- **one-step refinement** -/
theorem step_ok {s sp} (h : Inv s sp) (op : Op) :
    Inv (Loop.step s op).1 (SpecLoop.step sp op).1 ∧ (Loop.step s op).2 = (SpecLoop.step sp op).2 := by
  have hidx := h.idx
  cases op with
  | next => exact next_ok h
  | length =>
    obtain ⟨h1, h2⟩ := getLength_ok h
    exact ⟨h1, by simp [Loop.step, SpecLoop.step, h2]⟩
  | revindex0 =>
    obtain ⟨h1, h2⟩ := getLength_ok h
    exact ⟨h1, by simp [Loop.step, SpecLoop.step, h2, hidx]⟩
  | revindex =>
    obtain ⟨h1, h2⟩ := getLength_ok h
    refine ⟨h1, ?_⟩
    simp only [Loop.step, SpecLoop.step, h2, hidx]
    congr 1; omega
  | first => exact ⟨h, by simp [Loop.step, SpecLoop.step, hidx]⟩
  | last =>
    obtain ⟨h1, h2⟩ := peekNext_ok h
    refine ⟨h1, ?_⟩
    simp only [Loop.step, SpecLoop.step, h2]
    have hle := h.le
    by_cases hk : sp.k < sp.xs.length
    · have : ¬ (sp.k ≥ sp.xs.length) := by omega
      simp [hk, this]
    · have hge : sp.xs.length ≤ sp.k := by omega
      simp [hge]
  | previtem =>
    have hb := h.bef
    by_cases h1 : sp.k = 1
    · have e : Loop.step s .previtem = (s, .undef) := by simp [Loop.step, hidx, h1]
      have es : SpecLoop.step sp .previtem = (sp, .undef) := by simp [SpecLoop.step, h1]
      rw [e, es]; exact ⟨h, rfl⟩
    · by_cases h0 : sp.k = 0
      · have hb' : s.before = none := by rw [hb]; simp [h0]
        have e : Loop.step s .previtem = (s, .missing) := by simp [Loop.step, hidx, h0, hb']
        have es : SpecLoop.step sp .previtem = (sp, .missing) := by simp [SpecLoop.step, h0]
        rw [e, es]; exact ⟨h, rfl⟩
      · have h2 : ¬ sp.k ≤ 1 := by omega
        have hb' : s.before = sp.xs[sp.k - 2]? := by rw [hb]; simp [h2]
        cases hv : sp.xs[sp.k - 2]? with
        | none =>
          have e : Loop.step s .previtem = (s, .missing) := by
            simp [Loop.step, hidx, h1, hb', hv]
          have es : SpecLoop.step sp .previtem = (sp, .missing) := by
            simp [SpecLoop.step, h1, h0, hv]
          rw [e, es]; exact ⟨h, rfl⟩
        | some v =>
          have e : Loop.step s .previtem = (s, .val v) := by
            simp [Loop.step, hidx, h1, hb', hv]
          have es : SpecLoop.step sp .previtem = (sp, .val v) := by
            simp [SpecLoop.step, h1, h0, hv]
          rw [e, es]; exact ⟨h, rfl⟩
  | nextitem =>
    obtain ⟨h1, h2⟩ := peekNext_ok h
    cases hv : sp.xs[sp.k]? with
    | none =>
      rw [hv] at h2
      have e : Loop.step s .nextitem = ((peekNext s).1, .undef) := by simp [Loop.step, h2]
      have es : SpecLoop.step sp .nextitem = (sp, .undef) := by simp [SpecLoop.step, hv]
      rw [e, es]; exact ⟨h1, rfl⟩
    | some v =>
      rw [hv] at h2
      have e : Loop.step s .nextitem = ((peekNext s).1, .val v) := by simp [Loop.step, h2]
      have es : SpecLoop.step sp .nextitem = (sp, .val v) := by simp [SpecLoop.step, hv]
      rw [e, es]; exact ⟨h1, rfl⟩
  | index => exact ⟨h, by simp [Loop.step, SpecLoop.step, hidx]⟩
  | index0 => exact ⟨h, by simp [Loop.step, SpecLoop.step, hidx]⟩
  | depth => exact ⟨h, by simp [Loop.step, SpecLoop.step, h.depth]⟩
  | depth0 => exact ⟨h, by simp [Loop.step, SpecLoop.step, h.depth]⟩
  | cycle args =>
    by_cases he : args.isEmpty = true
    · have e : Loop.step s (.cycle args) = (s, .typeError) := by simp [Loop.step, he]
      have es : SpecLoop.step sp (.cycle args) = (sp, .typeError) := by simp [SpecLoop.step, he]
      rw [e, es]; exact ⟨h, rfl⟩
    · cases hv : args[(((sp.k : Int) - 1) % (args.length : Int)).toNat]? with
      | none =>
        have e : Loop.step s (.cycle args) = (s, .typeError) := by simp [Loop.step, he, hidx, hv]
        have es : SpecLoop.step sp (.cycle args) = (sp, .typeError) := by
          simp [SpecLoop.step, he, hv]
        rw [e, es]; exact ⟨h, rfl⟩
      | some v =>
        have e : Loop.step s (.cycle args) = (s, .val v) := by simp [Loop.step, he, hidx, hv]
        have es : SpecLoop.step sp (.cycle args) = (sp, .val v) := by simp [SpecLoop.step, he, hv]
        rw [e, es]; exact ⟨h, rfl⟩
  | changed vals =>
    have hlc := h.lc
    by_cases hc : (sp.lastChanged != some vals) = true
    · have e : Loop.step s (.changed vals) = ({ s with lastChanged := some vals }, .bool true) := by
        simp only [Loop.step, hlc, hc, if_true]
      have es : SpecLoop.step sp (.changed vals) = ({ sp with lastChanged := some vals }, .bool true) := by
        simp only [SpecLoop.step, hc, if_true]
      rw [e, es]
      exact ⟨{ h with lc := rfl }, rfl⟩
    · have e : Loop.step s (.changed vals) = (s, .bool false) := by
        simp only [Loop.step, hlc, hc]; rfl
      have es : SpecLoop.step sp (.changed vals) = (sp, .bool false) := by
        simp only [SpecLoop.step, hc]; rfl
      rw [e, es]; exact ⟨h, rfl⟩

/-- **C07 (attribute values)**: every operation sequence on the `LoopContext` model
    yields exactly the documented values. -/
theorem loop_attr_values (xs : List V) (sized : Bool) (d : Nat) (ops : List Op) :
    (Loop.run (Loop.init xs sized d) ops).2 = (SpecLoop.run (SpecLoop.init xs d) ops).2 := by
  have : ∀ s sp, Inv s sp → (Loop.run s ops).2 = (SpecLoop.run sp ops).2 := by
    induction ops with
    | nil => intros; rfl
    | cons op ops ih =>
      intro s sp h
      obtain ⟨h1, h2⟩ := step_ok h op
      simp only [Loop.run, SpecLoop.run, h2, ih _ _ h1]
  exact this _ _ (inv_init xs sized d)

/-- a specification step either hands out `xs[k]` and advances, or leaves `k` alone
    and hands out nothing -/
theorem spec_step_cases (sp : Sp) (op : Op) :
    (∃ v, sp.xs[sp.k]? = some v ∧ SpecLoop.step sp op = ({ sp with k := sp.k + 1 }, .item v)) ∨
    ((SpecLoop.step sp op).1.xs = sp.xs ∧ (SpecLoop.step sp op).1.k = sp.k ∧
      visited [(SpecLoop.step sp op).2] = [] ∧
      (op = .next → sp.xs[sp.k]? = none ∧ (SpecLoop.step sp op).2 = .stop)) := by
  cases op with
  | next =>
    cases hv : sp.xs[sp.k]? with
    | none => right; simp [SpecLoop.step, hv, visited]
    | some v => left; exact ⟨v, rfl, by simp [SpecLoop.step, hv]⟩
  | changed vals => right; simp only [SpecLoop.step]; split <;> simp [visited]
  | cycle args => right; simp only [SpecLoop.step]; (repeat' split) <;> simp [visited]
  | previtem => right; simp only [SpecLoop.step]; (repeat' split) <;> simp [visited]
  | nextitem => right; simp only [SpecLoop.step]; (repeat' split) <;> simp [visited]
  | length => right; simp [SpecLoop.step, visited]
  | revindex => right; simp [SpecLoop.step, visited]
  | revindex0 => right; simp [SpecLoop.step, visited]
  | first => right; simp [SpecLoop.step, visited]
  | last => right; simp [SpecLoop.step, visited]
  | index => right; simp [SpecLoop.step, visited]
  | index0 => right; simp [SpecLoop.step, visited]
  | depth => right; simp [SpecLoop.step, visited]
  | depth0 => right; simp [SpecLoop.step, visited]

theorem visited_cons_nil (o : Out) (r : List Out) (h : visited [o] = []) :
    visited (o :: r) = visited r := by
  cases o <;> simp_all [visited]

theorem visited_append (a b : List Out) : visited (a ++ b) = visited a ++ visited b := by
  induction a with
  | nil => rfl
  | cons o a ih => cases o <;> simp [visited, ih]

/-- in the specification the items handed out are a contiguous walk of `xs` from `k` -/
theorem spec_visits (sp : Sp) (ops : List Op) (hk : sp.k ≤ sp.xs.length) :
    visited (SpecLoop.run sp ops).2 = (sp.xs.drop sp.k).take ((SpecLoop.run sp ops).1.k - sp.k) ∧
    (SpecLoop.run sp ops).1.xs = sp.xs ∧ sp.k ≤ (SpecLoop.run sp ops).1.k ∧
    (SpecLoop.run sp ops).1.k ≤ sp.xs.length := by
  induction ops generalizing sp with
  | nil => simp [SpecLoop.run, visited]; exact hk
  | cons op ops ih =>
    rcases spec_step_cases sp op with ⟨v, hv, hs⟩ | ⟨hx, hk', hvis, _⟩
    · have hlt : sp.k < sp.xs.length := by
        rcases Nat.lt_or_ge sp.k sp.xs.length with h | h
        · exact h
        · rw [List.getElem?_eq_none h] at hv; simp at hv
      have := ih { sp with k := sp.k + 1 } (by show sp.k + 1 ≤ sp.xs.length; omega)
      simp only [SpecLoop.run, hs, visited]
      obtain ⟨t1, t2, t3, t4⟩ := this
      simp only at t1 t2 t3 t4
      refine ⟨?_, t2, by omega, t4⟩
      rw [t1]
      have hd : sp.xs.drop sp.k = v :: sp.xs.drop (sp.k + 1) := by
        rw [List.drop_eq_getElem_cons hlt]
        congr 1
        rw [List.getElem?_eq_getElem hlt] at hv
        exact Option.some.inj hv
      rw [hd]
      have : (SpecLoop.run { sp with k := sp.k + 1 } ops).1.k - sp.k =
          ((SpecLoop.run { sp with k := sp.k + 1 } ops).1.k - (sp.k + 1)) + 1 := by omega
      rw [this, List.take_succ_cons]
    · have := ih (SpecLoop.step sp op).1 (by rw [hx, hk']; exact hk)
      rw [hx, hk'] at this
      simp only [SpecLoop.run]
      rw [visited_cons_nil _ _ hvis]
      exact this

/-- **C07 (each item exactly once, in order)**: whatever attribute queries are
    interleaved, the items handed out by `next` are a prefix of the input. -/
theorem loop_visits_in_order (xs : List V) (sized : Bool) (d : Nat) (ops : List Op) :
    ∃ n, n ≤ xs.length ∧ visited (Loop.run (Loop.init xs sized d) ops).2 = xs.take n := by
  rw [loop_attr_values]
  have := spec_visits (SpecLoop.init xs d) ops (by simp [SpecLoop.init])
  simp only [SpecLoop.init, List.drop_zero, Nat.sub_zero] at this
  exact ⟨_, this.2.2.2, this.1⟩

theorem spec_run_append (sp : Sp) (a b : List Op) :
    SpecLoop.run sp (a ++ b) =
      ((SpecLoop.run (SpecLoop.run sp a).1 b).1,
       (SpecLoop.run sp a).2 ++ (SpecLoop.run (SpecLoop.run sp a).1 b).2) := by
  induction a generalizing sp with
  | nil => simp [SpecLoop.run]
  | cons o a ih => simp [SpecLoop.run, ih]

/-- ... and all of it once a `next` has reported exhaustion: no item is ever lost -/
theorem stop_means_all (xs : List V) (sized : Bool) (d : Nat) (ops : List Op)
    (h : (Loop.step (Loop.run (Loop.init xs sized d) ops).1 .next).2 = .stop) :
    visited (Loop.run (Loop.init xs sized d) ops).2 = xs := by
  -- move to the specification
  have inv_run : ∀ (ops : List Op) s sp, Inv s sp →
      Inv (Loop.run s ops).1 (SpecLoop.run sp ops).1 := by
    intro ops
    induction ops with
    | nil => intro s sp h; exact h
    | cons op ops ih => intro s sp h; exact ih _ _ (step_ok h op).1
  have hinv := inv_run ops _ _ (inv_init xs sized d)
  have h2 := (step_ok hinv .next).2
  rw [h] at h2
  rw [loop_attr_values]
  have hv := spec_visits (SpecLoop.init xs d) ops (by simp [SpecLoop.init])
  generalize (SpecLoop.run (SpecLoop.init xs d) ops) = r at *
  simp only [SpecLoop.init, List.drop_zero, Nat.sub_zero] at hv
  obtain ⟨hv1, hx, _, hle⟩ := hv
  rcases spec_step_cases r.1 .next with ⟨v, _, hs⟩ | ⟨_, _, _, hn⟩
  · rw [hs] at h2; simp at h2
  · have hnone := (hn rfl).1
    have hge : r.1.xs.length ≤ r.1.k := by
      rcases Nat.lt_or_ge r.1.k r.1.xs.length with h' | h'
      · rw [List.getElem?_eq_getElem h'] at hnone; simp at hnone
      · exact h'
    rw [hv1]
    rw [hx] at hge
    exact List.take_of_length_le hge

-- non-vacuity: a generator-like (unsized) iterable with look-ahead and length queries
example : (Loop.run (Loop.init [7, 8, 9] false 0)
    [.next, .last, .length, .nextitem, .next, .previtem, .revindex, .next, .last, .next]).2 =
    [.item 7, .bool false, .int 3, .val 8, .item 8, .val 7, .int 2, .item 9, .bool true, .stop] := by
  decide

end JinjaV.C07
