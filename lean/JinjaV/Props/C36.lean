/-
  C36 — async rendering always closes the generators it opens.

  `bracketed_closed`: for every generator tree in which every generator is consumed in a
  closing form (try/finally-aclose, `async with aclosing`, or a full drain) and EVERY
  adversary (stop-and-aclose at any chunk, CancelledError at any await), once the root has
  finished no opened generator is left unclosed — with no GC finaliser in the model.
  `no_attack_closed`: without an attack even bare iteration closes everything (a bare site
  can only leak through an early stop or a cancellation).
  `bare_can_leak_on_stop`, `bare_can_leak_on_cancel`: a bare open does leave a generator
  unclosed (the loop-filter shape of compiler.py visit_For: finding F14).
-/
import JinjaV.Model.GenTree
import JinjaV.Gen.AsyncSites

namespace JinjaV.C36
open JinjaV.GenTree

/-- `s'` is a later state than `s` with no additional unclosed generator -/
structure Rel (s s' : St) : Prop where
  mono : s.nOpened ≤ s'.nOpened
  keep : ∀ i, i ∈ s.closed → i ∈ s'.closed
  noNew : ∀ i, i < s'.nOpened → i ∉ s'.closed → i < s.nOpened ∧ i ∉ s.closed

private theorem Rel.refl (s : St) : Rel s s := ⟨Nat.le_refl _, fun _ h => h, fun _ h1 h2 => ⟨h1, h2⟩⟩

private theorem Rel.trans {a b c : St} (h1 : Rel a b) (h2 : Rel b c) : Rel a c :=
  ⟨Nat.le_trans h1.mono h2.mono, fun i h => h2.keep i (h1.keep i h),
   fun i hi hc => let ⟨x, y⟩ := h2.noNew i hi hc; h1.noNew i x y⟩

/-- no frame on the way was left suspended -/
def Clean : Out → Prop
  | .done => True
  | .raised => True
  | .exited p => Clean p
  | .abandoned _ => False

def GoodSig : Sig → Prop
  | .resume => True
  | .exit p => Clean p
  | .abandon _ => False

/-- a consumer that leaves no new unclosed generator behind and never abandons its producer -/
def GoodC (c : Consumer) : Prop := ∀ t, Rel t (c t).1 ∧ GoodSig (c t).2

private theorem rel_choice (s : St) : Rel s s.choice.1 := by
  unfold St.choice
  split <;> exact ⟨Nat.le_refl _, fun _ h => h, fun _ h1 h2 => ⟨h1, h2⟩⟩

private theorem rel_open_close {s s2 : St} (h : Rel s.openGen.1 s2) : Rel s (s2.close s.openGen.2) := by
  have hm := h.mono
  simp only [St.openGen] at hm h ⊢
  refine ⟨by simp only [St.close]; omega, fun i hi => ?_, fun i hi hc => ?_⟩
  · simp only [St.close]; exact List.mem_cons_of_mem _ (h.keep i hi)
  · simp only [St.close, List.mem_cons, not_or] at hi hc
    have := h.noNew i hi hc.2
    exact ⟨by have := this.1; have := hc.1; simp only at *; omega, this.2⟩

private theorem goodSig_bracketed {o : Out} (h : Clean o) : GoodSig (sigOf .bracketed o) := by
  cases o with
  | done => trivial
  | raised => exact h
  | exited p => exact h
  | abandoned p => exact h.elim

/-- what the handler of `opn`/`drain` does with a cleanly ended child -/
private theorem afterChild_ok {s s2 : St} {o : Out} (h : Rel s.openGen.1 s2) (hc : Clean o) :
    Rel s (afterChild s.openGen.2 s2 o).1 ∧ ∀ o', (afterChild s.openGen.2 s2 o).2 = some o' → Clean o' := by
  cases o with
  | done => exact ⟨rel_open_close h, fun _ h' => by simp [afterChild] at h'⟩
  | raised => exact ⟨rel_open_close h, fun _ h' => by simp [afterChild] at h'; subst h'; trivial⟩
  | exited p => exact ⟨rel_open_close h, fun _ h' => by simp [afterChild] at h'; subst h'; exact hc⟩
  | abandoned p => exact hc.elim

/-- main invariant: a fully bracketed body, run against a good consumer, leaves no new
    unclosed generator and is itself not left suspended -/
theorem exec_bracketed (g : G) (hb : allBracketed g = true) :
    ∀ c, GoodC c → ∀ s, Rel s (exec g c s).1 ∧ Clean (exec g c s).2 := by
  induction g with
  | nil => intro c _ s; exact ⟨Rel.refl s, trivial⟩
  | yld k ih =>
    intro c hc s
    have hk := ih (by simpa [allBracketed] using hb) c hc
    have h := hc s
    unfold exec
    rcases hcs : c s with ⟨s', sg⟩
    rw [hcs] at h
    cases sg with
    | resume => exact ⟨h.1.trans (hk s').1, (hk s').2⟩
    | exit p => exact ⟨h.1, h.2⟩
    | abandon p => exact h.2.elim
  | awt k ih =>
    intro c hc s
    have hk := ih (by simpa [allBracketed] using hb) c hc
    have h := rel_choice s
    unfold exec
    rcases hcs : s.choice with ⟨s', b⟩
    rw [hcs] at h
    cases b with
    | true => exact ⟨h, trivial⟩
    | false => exact ⟨h.trans (hk s').1, (hk s').2⟩
  | opn br child body k ihc ihb ihk =>
    intro c hc s
    simp only [allBracketed, Bool.and_eq_true, beq_iff_eq] at hb
    obtain ⟨⟨⟨hbr, hch⟩, hbo⟩, hkk⟩ := hb
    subst hbr
    have hcons : GoodC (fun t => ((exec body c t).1, sigOf .bracketed (exec body c t).2)) := fun t =>
      ⟨(ihb hbo c hc t).1, goodSig_bracketed (ihb hbo c hc t).2⟩
    have hr := ihc hch _ hcons s.openGen.1
    have ha := afterChild_ok hr.1 hr.2
    unfold exec
    simp only
    rcases hac : afterChild s.openGen.2 _ _ with ⟨s2, _ | o⟩
    · rw [hac] at ha
      exact ⟨ha.1.trans (ihk hkk c hc s2).1, (ihk hkk c hc s2).2⟩
    · rw [hac] at ha
      exact ⟨ha.1, ha.2 o rfl⟩
  | drain child k ihc ihk =>
    intro c hc s
    simp only [allBracketed, Bool.and_eq_true] at hb
    have hcons : GoodC (fun t => (t, Sig.resume)) := fun t => ⟨Rel.refl t, trivial⟩
    have hr := ihc hb.1 _ hcons s.openGen.1
    have ha := afterChild_ok hr.1 hr.2
    unfold exec
    simp only
    rcases hac : afterChild s.openGen.2 _ _ with ⟨s2, _ | o⟩
    · rw [hac] at ha
      exact ⟨ha.1.trans (ihk hb.2 c hc s2).1, (ihk hb.2 c hc s2).2⟩
    · rw [hac] at ha
      exact ⟨ha.1, ha.2 o rfl⟩

private theorem goodC_top : GoodC topConsumer := by
  intro t
  have h := rel_choice t
  unfold topConsumer
  rcases hcs : t.choice with ⟨s', b⟩
  rw [hcs] at h
  cases b <;> exact ⟨h, trivial⟩

private theorem leaked_nil_of {s : St} (h : ∀ i, i < s.nOpened → i ∈ s.closed) : leaked s = [] := by
  unfold leaked
  rw [List.filter_eq_nil_iff]
  intro i hi
  simp only [List.mem_range] at hi
  simp [h i hi]

/-- **C36 on the model.** Every opened generator is closed when the root has finished, for
    every fully bracketed tree and every adversary. -/
theorem bracketed_closed (g : G) (hb : allBracketed g = true) (adv : List Bool) :
    leaked (run g adv).1 = [] := by
  have h := exec_bracketed g hb topConsumer goodC_top { nOpened := 1, closed := [], adv := adv, points := 0 }
  unfold run
  simp only
  generalize exec g topConsumer { nOpened := 1, closed := [], adv := adv, points := 0 } = r at h
  obtain ⟨s, o⟩ := r
  have key : leaked (s.close 0) = [] := by
    apply leaked_nil_of
    intro i hi
    simp only [St.close] at hi ⊢
    by_cases hc : i ∈ s.closed
    · exact List.mem_cons_of_mem _ hc
    · have := (h.1.noNew i hi hc).1
      simp only at this
      have : i = 0 := by omega
      subst this; exact List.mem_cons_self
  cases o with
  | done => exact key
  | raised => exact key
  | exited p => exact key
  | abandoned p => exact h.2.elim

/-- the root itself is reported finished in every such run (it is never left suspended) -/
theorem bracketed_root_not_abandoned (g : G) (hb : allBracketed g = true) (adv : List Bool) :
    Clean (run g adv).2 := by
  have h := exec_bracketed g hb topConsumer goodC_top { nOpened := 1, closed := [], adv := adv, points := 0 }
  unfold run
  simp only
  generalize exec g topConsumer { nOpened := 1, closed := [], adv := adv, points := 0 } = r at h
  obtain ⟨s, o⟩ := r
  cases o <;> first | exact h.2 | trivial

-- non-vacuity: the shape the compiler emits for `{% extends %}` + block + include, attacked
example : allBracketed (.opn .bracketed (.awt (.opn .bracketed (.yld (.awt (.yld .nil))) (.yld .nil) .nil))
    (.yld .nil) (.drain (.awt (.yld .nil)) (.yld .nil))) = true := by decide
example : (run (.opn .bracketed (.awt (.opn .bracketed (.yld (.awt (.yld .nil))) (.yld .nil) .nil))
    (.yld .nil) (.drain (.awt (.yld .nil)) (.yld .nil))) [false, false, true]).1.nOpened = 3 := by decide

/-! ### without an attack nothing leaks, bracketed or not -/

/-- a consumer that, as long as the adversary is exhausted, always resumes -/
def CalmC (c : Consumer) : Prop :=
  ∀ t, t.adv = [] → Rel t (c t).1 ∧ (c t).1.adv = [] ∧ (c t).2 = .resume

private theorem choice_calm (s : St) (h : s.adv = []) : s.choice.2 = false ∧ s.choice.1.adv = [] := by
  unfold St.choice; rw [h]; exact ⟨rfl, rfl⟩

theorem exec_calm (g : G) :
    ∀ c, CalmC c → ∀ s, s.adv = [] → Rel s (exec g c s).1 ∧ (exec g c s).1.adv = [] ∧ (exec g c s).2 = .done := by
  induction g with
  | nil => intro c _ s hs; exact ⟨Rel.refl s, hs, rfl⟩
  | yld k ih =>
    intro c hc s hs
    have h := hc s hs
    unfold exec
    rcases hcs : c s with ⟨s', sg⟩
    rw [hcs] at h
    obtain ⟨h1, h2, h3⟩ := h
    simp only at h3 h2 h1; subst h3
    have hk := ih c hc s' h2
    exact ⟨h1.trans hk.1, hk.2⟩
  | awt k ih =>
    intro c hc s hs
    have h := rel_choice s
    have h' := choice_calm s hs
    unfold exec
    rcases hcs : s.choice with ⟨s', b⟩
    rw [hcs] at h h'
    simp only at h' h
    obtain ⟨hb, ha⟩ := h'
    subst hb
    have hk := ih c hc s' ha
    exact ⟨h.trans hk.1, hk.2⟩
  | opn br child body k ihc ihb ihk =>
    intro c hc s hs
    have hcons : CalmC (fun t => ((exec body c t).1, sigOf br (exec body c t).2)) := fun t ht => by
      have := ihb c hc t ht
      refine ⟨this.1, this.2.1, ?_⟩
      simp only [this.2.2, sigOf]
    have hr := ihc _ hcons s.openGen.1 (by simpa [St.openGen] using hs)
    unfold exec
    simp only
    rw [hr.2.2]
    simp only [afterChild]
    have hk := ihk c hc ((exec child _ s.openGen.1).1.close s.openGen.2) (by simpa [St.close] using hr.2.1)
    exact ⟨(rel_open_close hr.1).trans hk.1, hk.2⟩
  | drain child k ihc ihk =>
    intro c hc s hs
    have hcons : CalmC (fun t => (t, Sig.resume)) := fun t ht => ⟨Rel.refl t, ht, rfl⟩
    have hr := ihc _ hcons s.openGen.1 (by simpa [St.openGen] using hs)
    unfold exec
    simp only
    rw [hr.2.2]
    simp only [afterChild]
    have hk := ihk c hc ((exec child _ s.openGen.1).1.close s.openGen.2) (by simpa [St.close] using hr.2.1)
    exact ⟨(rel_open_close hr.1).trans hk.1, hk.2⟩

/-- A render that is neither stopped early nor cancelled closes every generator and runs to
    the end, whatever mix of bare and bracketed sites it has. -/
theorem no_attack_closed (g : G) : leaked (run g []).1 = [] ∧ (run g []).2 = .done := by
  have hc : CalmC topConsumer := by
    intro t ht
    have h := rel_choice t
    have h' := choice_calm t ht
    unfold topConsumer
    rcases hcs : t.choice with ⟨s', b⟩
    rw [hcs] at h h'
    simp only at h h'
    obtain ⟨hb, ha⟩ := h'
    subst hb
    exact ⟨h, ha, rfl⟩
  have h := exec_calm g topConsumer hc { nOpened := 1, closed := [], adv := [], points := 0 } rfl
  unfold run
  simp only
  generalize exec g topConsumer { nOpened := 1, closed := [], adv := [], points := 0 } = r at h
  obtain ⟨s, o⟩ := r
  obtain ⟨h1, _, h3⟩ := h
  simp only at h3 h1; subst h3
  refine ⟨?_, rfl⟩
  apply leaked_nil_of
  intro i hi
  simp only [St.close] at hi ⊢
  by_cases hcl : i ∈ s.closed
  · exact List.mem_cons_of_mem _ hcl
  · have := (h1.noNew i hi hcl).1
    simp only at this
    have : i = 0 := by omega
    subst this; exact List.mem_cons_self

example : leaked (run (.opn .bare (.yld (.yld .nil)) (.awt (.yld .nil)) .nil) []).1 = [] := by decide

/-! ### a bare open can leak (finding F14: the loop-filter generator of visit_For) -/

/-- `async for x in t_1(xs): yield …` — the consumer takes the first chunk, then `aclose()`s:
    the root is closed, the filter generator (id 1) stays suspended. -/
theorem bare_can_leak_on_stop :
    leaked (run (.opn .bare (.yld (.yld .nil)) (.yld .nil) .nil) [true]).1 = [1] := by decide

/-- `async for x in t_1(xs): await f(x)` — the task is cancelled at the await in the loop body. -/
theorem bare_can_leak_on_cancel :
    leaked (run (.opn .bare (.yld (.yld .nil)) (.awt (.yld .nil)) .nil) [true]).1 = [1] := by decide

/-- the same programs with the filter generator bracketed close it (instances of `bracketed_closed`) -/
example : leaked (run (.opn .bracketed (.yld (.yld .nil)) (.yld .nil) .nil) [true]).1 = [] := by decide
example : leaked (run (.opn .bracketed (.yld (.yld .nil)) (.awt (.yld .nil)) .nil) [true]).1 = [] := by decide

/-- Everything a bare child had opened itself stays open with it: a bare site hides a whole
    subtree from the closing discipline even if that subtree is bracketed. -/
theorem bare_abandons_subtree :
    leaked (run (.opn .bare (.opn .bracketed (.yld .nil) (.yld .nil) .nil) (.yld .nil) .nil) [true]).1 = [1, 2] := by
  decide

/-- the two answers of the driver's `gentree-check` agree: a tree is fully bracketed iff it has no bare site -/
theorem allBracketed_iff_no_bare (g : G) : allBracketed g = true ↔ bareCount g = 0 := by
  induction g with
  | nil => simp [allBracketed, bareCount]
  | yld k ih => simpa [allBracketed, bareCount] using ih
  | awt k ih => simpa [allBracketed, bareCount] using ih
  | opn br child body k ihc ihb ihk =>
    cases br <;> simp [allBracketed, bareCount, ihc, ihb, ihk, Nat.add_eq_zero_iff, and_assoc]
  | drain child k ihc ihk => simp [allBracketed, bareCount, ihc, ihk, Nat.add_eq_zero_iff]

/-! ### the library's own iteration sites (Gen/AsyncSites.lean, regenerated from the source on every run) -/

open JinjaV.Gen.AsyncSites in
/-- how a library entry point consumes the generator `root` it creates -/
def entryTree (k : JinjaV.Gen.AsyncSites.Kind) (root : G) : G :=
  match k with
  | .bracketed => .opn .bracketed root (.yld .nil) .nil   -- generate_async: forwards each chunk
  | .bare => .opn .bare root (.yld .nil) .nil
  | .drain => .drain root .nil

/-- No `async for` / async comprehension in environment.py, nativetypes.py, runtime.py, async_utils.py iterates
    bare (re-proved over the regenerated table on every run). -/
theorem library_sites_closing :
    JinjaV.Gen.AsyncSites.sites.all (fun s => s.kind != .bare) = true := by decide

/-- The entry points the property is about are in the table with a closing kind, and `auto_aiter` creates no
    generator of its own (so `async for … in auto_aiter(data)` opens nothing). -/
theorem entry_points_closing :
    (["Template.render_async", "Template.generate_async", "Template.make_module_async", "NativeTemplate.render_async",
      "BlockReference._async_call", "AsyncLoopContext.length"].all fun f =>
        JinjaV.Gen.AsyncSites.sites.any (fun s => s.func == f && s.kind != .bare)) = true
    ∧ JinjaV.Gen.AsyncSites.autoAiterIsPlainFunction = true
    ∧ JinjaV.Gen.AsyncSites.asyncGeneratorDefs = ["environment.Template.generate_async", "runtime.Undefined.__aiter__"] := by
  decide

/-- Composition: whichever library site drives a fully bracketed template body, under every adversary every
    generator is closed. -/
theorem library_entry_closed (root : G) (hb : allBracketed root = true) (adv : List Bool) :
    ∀ s ∈ JinjaV.Gen.AsyncSites.sites, leaked (run (entryTree s.kind root) adv).1 = [] := by
  intro s hs
  have hk : (s.kind != .bare) = true := List.all_eq_true.mp library_sites_closing s hs
  apply bracketed_closed
  cases hkk : s.kind with
  | bare => rw [hkk] at hk; exact absurd hk (by decide)
  | bracketed => simp [entryTree, allBracketed, hb]
  | drain => simp [entryTree, allBracketed, hb]

end JinjaV.C36
