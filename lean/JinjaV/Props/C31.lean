/-
  C31 — precompiled templates render exactly like templates compiled from source.

  Model: Model/Precompiled.lean.  What is PROVED here is the part of the property that is code-generator / loader logic:
  the two generated modules differ only in the `environment=environment` default parameter of the render functions; a render
  function (and everything nested in it) resolves `environment` to the same object either way; distinct template names are
  stored under distinct module files (SHA-1 collision freedom is a hypothesis); and the precompiled lookup returns each
  template's own code, or TemplateNotFound for a name that was not compiled — hence the two loaders present the same
  name → meaning map (`precompiled_lookup_eq`).  That rendering through equal maps gives equal output
  (`precompiled_render_eq` of DESIGN §5) is NOT proved: there is no render semantics in this framework yet; it is covered by the
  end-to-end correspondence.  Import machinery, zipimport and file IO are correspondence-only.
-/
import JinjaV.Model.Precompiled

namespace JinjaV.C31
open JinjaV.Precompiled

-- ---------------------------------------------------------------------------------------------------------------
-- 1. the generated module
-- ---------------------------------------------------------------------------------------------------------------

private theorem renderParams_false : renderParams false = renderParams true ++ [⟨"environment", some "environment"⟩] := rfl

private theorem stripEnv_renderParams : (renderParams false).filter (fun p => !isEnvParam p) = renderParams true := by decide

/-- `defer_init=True` and `defer_init=False` emit the same module except that each indentation-0 render function (`root`,
    `block_*`) loses its last parameter `environment=environment`: (a) the deferred module is the eager one with that parameter
    dropped; (b) every line is either untouched by the normalisation or is such a function with exactly that extra
    parameter; (c) bodies, names, order and count of all lines are the same -/
theorem defer_init_only_env_binding (t : Tpl) :
    emit true t = (emit false t).map stripEnv ∧
    (∀ l ∈ emit false t, stripEnv l = l ∨
      ∃ a f body, l = .funcDef a f (renderParams true ++ [⟨"environment", some "environment"⟩]) body ∧
        stripEnv l = .funcDef a f (renderParams true) body) ∧
    (emit true t).length = (emit false t).length := by
  refine ⟨?_, ?_, ?_⟩
  · have e1 : (stripEnv ∘ Line.aliasImport) = Line.aliasImport := rfl
    have e2 : (stripEnv ∘ fun b : String × List String => Line.funcDef t.isAsync (FName.block b.1) (renderParams false) b.2) =
        fun b => Line.funcDef t.isAsync (FName.block b.1) (renderParams true) b.2 := by
      funext b; simp [stripEnv, stripEnv_renderParams]
    simp only [emit, List.map_append, List.map_cons, List.map_nil, List.map_map, stripEnv, stripEnv_renderParams, e1, e2]
  · intro l hl
    simp only [emit, List.mem_append, List.mem_cons, List.mem_map, List.mem_nil_iff, or_false] at hl
    rcases hl with ((((h | ⟨x, _, h⟩) | h) | h) | ⟨b, _, h⟩) | h | h
    · left; subst h; rfl
    · left; subst h; rfl
    · left; subst h; rfl
    · right; subst h
      exact ⟨_, _, _, rfl, by simp [stripEnv, stripEnv_renderParams]⟩
    · right; subst h
      exact ⟨_, _, _, rfl, by simp [stripEnv, stripEnv_renderParams]⟩
    · left; subst h; rfl
    · left; subst h; rfl
  · simp [emit]

/-- the textual headers: one `def` per render function, in the same order, the eager ones with `, environment=environment` -/
theorem headers_count (d : Bool) (t : Tpl) : (headers (emit d t)).length = 1 + t.blocks.length := by
  simp only [headers, emit, List.filterMap_append, List.filterMap_cons, List.filterMap_nil, headerText,
    List.length_append, List.length_cons, List.length_nil, List.filterMap_map]
  have h1 : (List.filterMap (headerText ∘ Line.aliasImport) t.aliasImports).length = 0 := by
    induction t.aliasImports with
    | nil => rfl
    | cons h tl ih => simp [headerText] at ih ⊢
  have h2 : (List.filterMap (headerText ∘ fun b : String × List String =>
      Line.funcDef t.isAsync (FName.block b.1) (renderParams d) b.2) t.blocks).length = t.blocks.length := by
    induction t.blocks with
    | nil => rfl
    | cons h tl ih => simp [headerText, ih]
  rw [h1, h2]; omega

-- ---------------------------------------------------------------------------------------------------------------
-- 2. the `environment` binding
-- ---------------------------------------------------------------------------------------------------------------

private theorem lookup_through {name : String} {inner : List (List (String × Nat))} (h : ∀ s ∈ inner, s.lookup name = none)
    (outer : List (List (String × Nat))) (globals : List (String × Nat)) :
    lookupName name (inner ++ outer) globals = lookupName name outer globals := by
  induction inner with
  | nil => rfl
  | cons s tl ih =>
    simp only [List.cons_append, lookupName, h s List.mem_cons_self]
    exact ih (fun s' hs => h s' (List.mem_cons_of_mem _ hs))

private theorem renderScope_eager (g : List (String × Nat)) (ctx E : Nat) (h : g.lookup "environment" = some E) :
    (renderScope false g ctx).lookup "environment" = some E := by
  unfold renderScope renderParams envParam
  simp only [if_neg (by decide : ¬ (false = true)), List.cons_append, List.nil_append, List.filterMap_cons,
    List.filterMap_nil]
  rw [h]
  cases g.lookup "missing" <;> rfl

private theorem renderScope_deferred (g : List (String × Nat)) (ctx : Nat) :
    (renderScope true g ctx).lookup "environment" = none := by
  unfold renderScope renderParams envParam
  simp only [if_pos, List.append_nil, List.filterMap_cons, List.filterMap_nil]
  cases g.lookup "missing" <;> rfl

/-- inside a render function called as `f(context)`, at any nesting depth of inner functions (macros, call blocks, loop
    bodies) that do not bind the name themselves, `environment` evaluates to the environment object E in both modes:
    eager — the default parameter captured E when the module was executed by `from_code` (whatever the module global holds
    later); deferred — the module global, which `_from_namespace` set to E before any call (whatever it held at import time) -/
theorem env_binding_equiv (E ctx : Nat) (inner : List (List (String × Nat)))
    (hinner : ∀ s ∈ inner, s.lookup "environment" = none)
    (globalsAtDefEager globalsAtCallEager globalsAtDefDeferred globalsAtCallDeferred : List (String × Nat))
    (hEager : globalsAtDefEager.lookup "environment" = some E)
    (hDeferred : globalsAtCallDeferred.lookup "environment" = some E) :
    lookupName "environment" (inner ++ [renderScope false globalsAtDefEager ctx]) globalsAtCallEager = some E ∧
    lookupName "environment" (inner ++ [renderScope true globalsAtDefDeferred ctx]) globalsAtCallDeferred = some E := by
  rw [lookup_through hinner, lookup_through hinner]
  constructor
  · simp only [lookupName, renderScope_eager _ _ _ hEager]
  · simp only [lookupName, renderScope_deferred, hDeferred]

-- ---------------------------------------------------------------------------------------------------------------
-- 3. name → module
-- ---------------------------------------------------------------------------------------------------------------

/-- SHA-1 collision freedom ⇒ distinct template names are stored in / loaded from distinct modules -/
theorem module_key_injective {sha1 : String → String} (hinj : ∀ a b, sha1 a = sha1 b → a = b) :
    (∀ a b, templateKey sha1 a = templateKey sha1 b → a = b) ∧
    (∀ a b, moduleFilename sha1 a = moduleFilename sha1 b → a = b) := by
  constructor
  · intro a b h
    exact hinj a b ((String.append_right_inj _).mp h)
  · intro a b h
    exact hinj a b ((String.append_right_inj _).mp ((String.append_left_inj _).mp h))

private theorem lookup_filter_ne {Code : Type} (store : List (String × Code)) {f g : String} (h : g ≠ f) :
    (store.filter (fun e => e.1 != f)).lookup g = store.lookup g := by
  induction store with
  | nil => rfl
  | cons e tl ih =>
    obtain ⟨k, v⟩ := e
    by_cases hk : k = f
    · subst hk
      have : (g == k) = false := by simpa using h
      simp [List.filter, List.lookup, this, ih]
    · have hk' : (k != f) = true := by simpa using hk
      simp only [List.filter, hk', List.lookup]
      cases hg : g == k <;> simp [ih]

private theorem lookup_writeFile {Code : Type} (store : List (String × Code)) (f g : String) (d : Code) :
    (writeFile store f d).lookup g = if g = f then some d else store.lookup g := by
  unfold writeFile
  by_cases h : g = f
  · subst h; simp [List.lookup]
  · have : (g == f) = false := by simpa using h
    simp [List.lookup, this, h, lookup_filter_ne store h]

/-- templates other than `m` (or failing ones) leave `m`'s slot alone -/
private theorem lookup_compile_other {Code : Type} {sha1 : String → String} (hinj : ∀ a b, sha1 a = sha1 b → a = b)
    (compile : String → Compiled Code) (m : String) (names : List String)
    (h : ∀ n ∈ names, ∀ c, compile n = .ok c → n ≠ m) :
    ∀ store : List (String × Code),
      (names.foldl (compileStep sha1 compile) store).lookup (moduleFilename sha1 m) = store.lookup (moduleFilename sha1 m) := by
  induction names with
  | nil => intro store; rfl
  | cons n tl ih =>
    intro store
    simp only [List.foldl_cons]
    rw [ih (fun k hk => h k (List.mem_cons_of_mem _ hk))]
    unfold compileStep
    cases hn : compile n with
    | error _ => rfl
    | ok c =>
      simp only
      rw [lookup_writeFile]
      have hne : moduleFilename sha1 m ≠ moduleFilename sha1 n :=
        fun e => h n List.mem_cons_self c hn ((module_key_injective hinj).2 m n e).symm
      simp [hne]

/-- a listed template that compiles ends up in its own slot, whatever else is compiled before or after it -/
private theorem lookup_compile_ok {Code : Type} {sha1 : String → String} (hinj : ∀ a b, sha1 a = sha1 b → a = b)
    (compile : String → Compiled Code) (m : String) (c : Code) (hc : compile m = .ok c) (names : List String)
    (hm : m ∈ names) :
    ∀ store : List (String × Code),
      (names.foldl (compileStep sha1 compile) store).lookup (moduleFilename sha1 m) = some c := by
  induction names with
  | nil => simp at hm
  | cons n tl ih =>
    intro store
    simp only [List.foldl_cons]
    by_cases hmt : m ∈ tl
    · exact ih hmt _
    · have hmn : m = n := by
        rcases List.mem_cons.mp hm with h | h
        · exact h
        · exact absurd h hmt
      subst hmn
      rw [lookup_compile_other hinj compile m tl (fun k hk _ _ e => hmt (e ▸ hk))]
      unfold compileStep
      rw [hc]
      simp only
      rw [lookup_writeFile]; simp

/-- loading a compiled name through the module loader returns THAT template's code -/
theorem load_compiled_own_code {Code : Type} {sha1 : String → String} (hinj : ∀ a b, sha1 a = sha1 b → a = b)
    (compile : String → Compiled Code) (names : List String) {n : String} {code : Code} (hn : n ∈ names)
    (hc : compile n = .ok code) :
    moduleLoad sha1 (compileTemplates sha1 compile names) n = .template code := by
  unfold moduleLoad compileTemplates
  rw [lookup_compile_ok hinj compile n code hc names hn]

/-- a name that was not compiled (not listed by the loader) raises TemplateNotFound -/
theorem load_uncompiled_not_found {Code : Type} {sha1 : String → String} (hinj : ∀ a b, sha1 a = sha1 b → a = b)
    (compile : String → Compiled Code) (names : List String) {n : String} (hn : n ∉ names) :
    moduleLoad sha1 (compileTemplates sha1 compile names) n = .notFound n := by
  unfold moduleLoad compileTemplates
  rw [lookup_compile_other hinj compile n names (fun k hk _ _ e => hn (e ▸ hk))]
  rfl

/-- the boundary of the property (documented behaviour of `ignore_errors=True`): a template that does not compile is
    skipped, so the precompiled side reports TemplateNotFound where the source side reports the syntax error -/
theorem skipped_template_not_found {Code : Type} {sha1 : String → String} (hinj : ∀ a b, sha1 a = sha1 b → a = b)
    (compile : String → Compiled Code) (names : List String) {n : String} {msg : String} (hn : n ∈ names)
    (hc : compile n = .error msg) :
    moduleLoad sha1 (compileTemplates sha1 compile names) n = .notFound n ∧
    sourceLoad compile names n = .syntaxError n := by
  constructor
  · unfold moduleLoad compileTemplates
    rw [lookup_compile_other hinj compile n names (fun k _ c hk e => by rw [e, hc] at hk; cases hk)]
    rfl
  · simp [sourceLoad, hn, hc]

/-- the two loaders present the same map name → meaning: if every listed template compiles in both modes and the two
    compilations of a template mean the same (`sem`; this is what `defer_init_only_env_binding` + `env_binding_equiv` argue
    and what the L-code tie checks on every generated template), then for EVERY name — compiled or not — loading through
    the module loader and loading from source agree -/
theorem precompiled_lookup_eq {Code Sem : Type} {sha1 : String → String} (hinj : ∀ a b, sha1 a = sha1 b → a = b)
    (compileSrc compilePre : String → Compiled Code) (sem : Code → Sem) (names : List String)
    (hsem : ∀ n ∈ names, ∃ cs cp, compileSrc n = .ok cs ∧ compilePre n = .ok cp ∧ sem cp = sem cs) (n : String) :
    (moduleLoad sha1 (compileTemplates sha1 compilePre names) n).map sem = (sourceLoad compileSrc names n).map sem := by
  by_cases hn : n ∈ names
  · obtain ⟨cs, cp, h1, h2, h3⟩ := hsem n hn
    rw [load_compiled_own_code hinj compilePre names hn h2]
    simp [sourceLoad, hn, h1, LoadResult.map, h3]
  · rw [load_uncompiled_not_found hinj compilePre names hn]
    simp [sourceLoad, hn, LoadResult.map]

-- ---------------------------------------------------------------------------------------------------------------
-- 4. one loader, several environments
-- ---------------------------------------------------------------------------------------------------------------

private theorem runLoads_heap (h : List Ns) (ls : List (String × Nat)) :
    (runLoads h ls).1 = h ++ ls.map (fun l => ⟨l.1, l.2⟩) := by
  induction ls generalizing h with
  | nil => simp [runLoads]
  | cons l tl ih => obtain ⟨c, e⟩ := l; simp [runLoads, ih]

private theorem runLoads_refs (h : List Ns) (ls : List (String × Nat)) :
    (runLoads h ls).2 = List.range' h.length ls.length := by
  induction ls generalizing h with
  | nil => simp [runLoads]
  | cons l tl ih => obtain ⟨c, e⟩ := l; simp [runLoads, ih, List.range'_succ]

/-- however many environments load however many templates (the same name any number of times) through ONE module loader, in
    any order: at the end every template object still refers to a namespace that holds its own code and whose `environment`
    is the environment it was loaded for — no load disturbs an earlier one -/
theorem shared_loader_keeps_own_environment (ls : List (String × Nat)) (i : Nat) (hi : i < ls.length) :
    ∃ r, (runLoads [] ls).2[i]? = some r ∧ (runLoads [] ls).1[r]? = some ⟨ls[i].1, ls[i].2⟩ := by
  refine ⟨i, ?_, ?_⟩
  · rw [runLoads_refs]; simp [hi]
  · rw [runLoads_heap]; simp [hi]

-- non-vacuity -----------------------------------------------------------------------------------------------------

def exTpl : Tpl :=
  { isAsync := false, runtimeNames := ["Undefined", "missing"], aliasImports := [], nameRepr := "'n'",
    rootBody := ["    yield 'x'"], blocks := [("a", ["    yield 'a'"]), ("inner", ["    pass"])], debugRepr := "'1=19'" }

example : headers (emit false exTpl) = ["def root(context, missing=missing, environment=environment):",
    "def block_a(context, missing=missing, environment=environment):",
    "def block_inner(context, missing=missing, environment=environment):"] ∧
    headers (emit true exTpl) = ["def root(context, missing=missing):", "def block_a(context, missing=missing):",
      "def block_inner(context, missing=missing):"] := by decide

-- env_binding_equiv: a macro nested in root; the eager module global was later overwritten, the deferred one was unset at import
example : lookupName "environment" ([[("l_1_q", 5)]] ++ [renderScope false [("environment", 7), ("missing", 1)] 3])
    [("environment", 99)] = some 7 ∧
    lookupName "environment" ([[("l_1_q", 5)]] ++ [renderScope true [("missing", 1)] 3]) [("environment", 7)] = some 7 := by
  decide

/-- a toy digest: injective (identity) vs. colliding (constant) -/
def exCompile : String → Compiled String := fun n => if n = "broken" then .error "syntax" else .ok ("code of " ++ n)

example : moduleLoad id (compileTemplates id exCompile ["a", "b", "broken"]) "b" = .template "code of b" ∧
    moduleLoad id (compileTemplates id exCompile ["a", "b", "broken"]) "zzz" = .notFound "zzz" ∧
    moduleLoad id (compileTemplates id exCompile ["a", "b", "broken"]) "broken" = .notFound "broken" := by decide

-- the collision-freedom hypothesis is necessary: with a colliding digest the later template overwrites the earlier one
example : moduleLoad (fun _ => "0") (compileTemplates (fun _ => "0") exCompile ["a", "b"]) "a" = .template "code of b" := by
  decide

-- two environments (1 and 2) load template "t" through one loader, environment 1 first: with a namespace per load both keep
-- their environment; with a namespace cached per key the first template ends up bound to environment 2
example : (runLoads [] [("t", 1), ("t", 2)]) = ([⟨"t", 1⟩, ⟨"t", 2⟩], [0, 1]) := by decide
example : (runLoadsCached [] [("t", 1), ("t", 2)]) = ([⟨"t", 2⟩], [0, 0]) := by decide

end JinjaV.C31
