/-
  C30 (part 1) — every place where the compile path observes the iteration order of a `set` is accounted for.

  `Gen/SetIterSites.lean` is READ from compiler.py, idtracking.py, ext.py, parser.py, nodes.py, meta.py, optimizer.py and from
  filters.py, tests.py, utils.py (filters and tests run at compile time when constant folding applies) on every run.  A site passes if the translator could justify it structurally (`sorted`, or `insensitive` with a rule name),
  or if it is on the allow-list below.  A NEW unsorted iteration over a set (or a `sorted(` that disappears) is neither,
  and `set_sites_covered` stops checking.
-/
import JinjaV.Gen.SetIterSites

namespace JinjaV.C30
open JinjaV.Gen.SetIterSites

inductive Reason where
  /-- the site is transcribed in Model/Symbols.lean behind the `order` parameter and Props/C30.lean proves the result
      independent of it -/
  | modelled (thm : String)
  /-- justified by a fact the translator re-reads on every run -/
  | fact (holds : Bool) (why : String)
  deriving DecidableEq, Repr

structure Allowed where
  file : String
  func : String
  kind : String
  expr : String
  /-- how many sites with this key may exist -/
  count : Nat
  reason : Reason
  deriving DecidableEq, Repr

def allowList : List Allowed := [
  -- idtracking.py:134 `for name in stores:` in Symbols.branch_update writes `self.loads[target] = …`.  Order independent
  -- because every target is already a key of `loads` (dict order fixed), targets of distinct names are distinct, and the
  -- written value depends on the name and the parent chain only: theorem `branch_update_order_independent`.
  ⟨"idtracking.py", "Symbols.branch_update", "for", "stores", 1, .modelled "branch_update_order_independent"⟩,
  -- parser.py:70 `for tag in extension.tags: self.extensions[tag] = extension.parse` fills a dict in set order; the dict is
  -- used for lookup only (`self.extensions.get(token.value)`), never iterated — re-read by the translator.  (Two extensions
  -- claiming the same tag are resolved by the *outer*, ordered loop over `iter_extensions()`.)
  ⟨"parser.py", "Parser.__init__", "for", "extension.tags", 1,
    .fact parserExtensionsLookupOnly "parser.extensions is only subscripted / .get()"⟩]

def Allowed.matches (a : Allowed) (s : Site) : Bool :=
  a.file == s.file && a.func == s.func && a.kind == s.kind && a.expr == s.expr

def Reason.ok : Reason → Bool
  | .modelled _ => true
  | .fact h _ => h

def siteCovered (s : Site) : Bool :=
  s.sorted || (s.insensitive && s.why != "") || allowList.any (fun a => a.matches s && a.reason.ok)

/-- the sites that are not accounted for (counterexample finder for `set_sites_covered`) -/
def uncovered : List Site := sites.filter (fun s => !siteCovered s)

/-- allow-list entries matched by more order-sensitive sites than they allow (a second unsorted loop over the same
    expression in the same function) -/
def overused : List Allowed :=
  allowList.filter (fun a => (sites.filter fun s => a.matches s && !(s.sorted || s.insensitive)).length > a.count)

/-- every set-iteration site is sorted, structurally order-insensitive, or explicitly allowed (once) -/
theorem set_sites_covered : (∀ s ∈ sites, siteCovered s = true) ∧ overused = [] := by
  decide +kernel

-- non-vacuity: the inventory is not empty, contains sorted, insensitive and allowed sites
example : sites.length ≥ 10 ∧ sites.any (·.sorted) ∧ sites.any (·.insensitive) ∧
    sites.any (fun s => allowList.any (·.matches s)) := by decide +kernel

end JinjaV.C30
