/-
  C16 — autoescaping escapes each value exactly once.

  Models: Model/Escape.lean (`escape`, `unescape` on the five entities, `Val`), Model/Autoesc.lean (the term language of
  value constructions and bodies, evaluated with autoescape (`valOn`/`outOn`) and without (`valOff`/`outOff`)).
  Helper lemmas: Lemmas/Escape.lean, Lemmas/Autoesc.lean.
-/
import JinjaV.Lemmas.Autoesc

namespace JinjaV.C16
open JinjaV.Escape JinjaV.HtmlFilt JinjaV.Autoesc

/-- **unescape_escape**: unescaping (once) what `escape` produced gives the string back, for every string -/
theorem unescape_escape (s : List Char) : unescape (escape s) = s := Autoesc.unescape_escape s

example : unescape (escape "a<&amp;>'\"".toList) = "a<&amp;>'\"".toList := by decide +kernel
-- … and a second escape is visible to the same oracle
example : unescape (escape (escape "<&".toList)) = "&lt;&amp;".toList := by decide +kernel

/-- **entity_language_closed**: escaped text (`Esc`), and more generally text whose every `&` starts a complete entity
    (`AmpOK`: escaped text with `&`-free template text in between), is closed under concatenation; `escape s` and
    `&`-free text belong to it -/
theorem entity_language_closed :
    (∀ a b, Esc a → Esc b → Esc (a ++ b)) ∧ (∀ a b, AmpOK a → AmpOK b → AmpOK (a ++ b)) ∧
    (∀ s, Esc (escape s)) ∧ (∀ t, Esc t → AmpOK t) ∧ (∀ t, '&' ∉ t → AmpOK t) :=
  ⟨fun _ _ ha hb => ha.append hb, fun _ _ ha hb => ha.append hb, escape_esc, fun _ h => AmpOK.of_esc h,
   fun _ h => AmpOK.of_noamp h⟩

/-- **unescape_hom**: on that language `unescape` is a homomorphism for concatenation (in general it is not:
    `&am` ++ `p;`), and it is the identity on `&`-free text -/
theorem unescape_hom :
    (∀ a b, AmpOK a → unescape (a ++ b) = unescape a ++ unescape b) ∧ (∀ t, '&' ∉ t → unescape t = t) :=
  ⟨fun _ b ha => unescape_append_of_ampok ha b, fun _ h => unescape_noamp h⟩

example : unescape ("&am".toList ++ "p;".toList) ≠ unescape "&am".toList ++ unescape "p;".toList := by decide +kernel

/-- **once**: for every term of the escaping-neutral fragment (string literals, names, `~`, output, sequencing — which
    is what include / import / inheritance do to bodies —, bound values — macro arguments, `{% set x = e %}`, loop
    variables —, and buffered bodies used as values — macro calls, `caller()`, `super()`, block references, set blocks,
    call blocks, `loop(children)`) and the `join` filter with any mix of plain and Markup delimiter and items (a delimiter
    that is itself a rendered fragment stays Markup: sync_do_join's third path) whose template text is `&`-free, and for every pair of environments related position by position by
    "escaped exactly once" (`Once`): the value under autoescape is related to the value without, and the text written
    under autoescape has only complete entities and unescapes to exactly the text written without. -/
theorem once (wrap : List Char → List (List Char)) (t : Tm) (hn : t.neutral = true) (ht : ∀ x ∈ t.texts, '&' ∉ x)
    (envOn : List Val) (envOff : List (List Char)) (he : EnvOnce envOn envOff) :
    Once (valOn wrap t envOn) (valOff t envOff) ∧
    AmpOK (outOn wrap t envOn) ∧ unescape (outOn wrap t envOn) = outOff t envOff :=
  once_aux wrap t hn ht envOn envOff he

/-- **render_once**: with context data given as plain strings (any characters, `&` and metacharacters included),
    `unescape (render with autoescape) = render without autoescape` -/
theorem render_once (wrap : List Char → List (List Char)) (t : Tm) (hn : t.neutral = true) (ht : ∀ x ∈ t.texts, '&' ∉ x)
    (data : List (List Char)) :
    unescape (outOn wrap t (data.map Val.plain)) = outOff t data := by
  have he : EnvOnce (data.map Val.plain) data := by
    induction data with
    | nil => exact EnvOnce.nil
    | cons d ds ih => exact EnvOnce.cons rfl ih
  exact (once wrap t hn ht _ _ he).2.2

/-- a macro-like body `<p>{{ x ~ "&" }}</p>` called with `d0`, its result bound and output twice, once concatenated
    with a literal: nothing is escaped twice, nothing is skipped -/
def exTerm : Tm :=
  .bind (.blk (.bind (.var 0) (.seq (.text "<p>".toList) (.seq (.emit (.cat (.var 0) (.lit "&".toList))) (.text "</p>".toList)))))
    (.seq (.emit (.var 0)) (.emit (.cat (.var 0) (.lit "<i>".toList))))

example : exTerm.neutral = true ∧
    outOn (fun l => [l]) exTerm [.plain "a<b".toList] = "<p>a&lt;b&amp;</p><p>a&lt;b&amp;</p>&lt;i&gt;".toList ∧
    outOff exTerm ["a<b".toList] = "<p>a<b&</p><p>a<b&</p><i>".toList := by decide +kernel

/-- joining with a delimiter that is a rendered fragment (a set block holding ` {{ s }} `, s = `&`): the delimiter is
    escaped once, not again at output -/
def exJoin : Tm :=
  .bind (.blk (.seq (.text " ".toList) (.seq (.emit (.var 0)) (.text " ".toList))))
    (.emit (.join (.var 0) (.lit "a<".toList) (.var 1)))

example : exJoin.neutral = true ∧
    outOn (fun l => [l]) exJoin [.plain "&".toList] = "a&lt; &amp; &amp;".toList ∧
    outOff exJoin ["&".toList] = "a< & &".toList := by decide +kernel

end JinjaV.C16
