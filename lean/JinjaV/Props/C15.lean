/-
  C15 — autoescaping never lets unescaped data or string literals into the output.

  Models: Model/Escape.lean, Model/HtmlFilt.lean (the Markup-aware filters), Model/Autoesc.lean (term language of value
  constructions: data, string literals, `~`, `+`, `%`/format, join, replace, indent, truncate, wordwrap, escape, forceescape,
  buffered bodies used as values — macro call, caller(), super(), block reference, set block —, bound values, output).
  `M` = `< > " '` (`isM`, `MFree`).  Helper lemmas: Lemmas/Escape.lean, Lemmas/HtmlFilt.lean, Lemmas/AutoescClean.lean.
  Filters and constructions outside this language are covered by the end-to-end scan of harness/props/c15.py only.
-/
import JinjaV.Lemmas.AutoescClean

namespace JinjaV.C15
open JinjaV.Escape JinjaV.HtmlFilt JinjaV.Autoesc

/-- **escape_clean**: `escape s` contains no character of `M`, for every string (data or string literal alike: both are
    plain values and meet the output only through `escape`) -/
theorem escape_clean (s : List Char) : MFree (escape s) := (escape_esc s).mfree

example : escape "<m1 a='1' b=\"2\">".toList = "&lt;m1 a=&#39;1&#39; b=&#34;2&#34;&gt;".toList := by decide +kernel

/-- **markup_invariant**: in every term whose template text is `M`-free, evaluated under autoescape in an environment
    whose Markup values are `M`-free (context data are plain strings — arbitrary), **every Markup value constructed is
    `M`-free**: string literals and data are plain; `escape`/`forceescape` produce escaped text; a buffered body (macro
    call, caller(), super(), block reference, set block) is Markup of already-written pieces; `~`, `+`, `%`/format, join,
    replace, indent, truncate, wordwrap on mixes of Markup and plain values escape the plain operands -/
theorem markup_invariant (wrap : List Char → List (List Char)) (t : Tm) (ht : ∀ x ∈ t.texts, MFree x)
    (env : List Val) (he : ∀ v ∈ env, v.Clean) : (valOn wrap t env).Clean :=
  (clean_aux wrap t ht env he).1

/-- **output_clean**: hence everything such a term writes is `M`-free: each output piece is template text, `escape v` of a
    plain value, or an `M`-free Markup -/
theorem output_clean (wrap : List Char → List (List Char)) (t : Tm) (ht : ∀ x ∈ t.texts, MFree x)
    (env : List Val) (he : ∀ v ∈ env, v.Clean) : MFree (outOn wrap t env) :=
  (clean_aux wrap t ht env he).2

/-- with plain context data (any characters at all) nothing of `M` reaches the output -/
theorem render_clean (wrap : List Char → List (List Char)) (t : Tm) (ht : ∀ x ∈ t.texts, MFree x)
    (data : List (List Char)) : MFree (outOn wrap t (data.map Val.plain)) := by
  apply output_clean wrap t ht
  intro v hv
  obtain ⟨d, _, rfl⟩ := List.mem_map.mp hv
  trivial

/-- a set block with template text and escaped data, indented by a data string, joined with a literal, formatted into a
    Markup format: every metacharacter of data and literals arrives escaped -/
def exTerm : Tm :=
  .bind (.blk (.seq (.text "a\nb ".toList) (.emit (.var 0))))
    (.emit (.mod (.blk (.text "[%s]".toList)) (.join (.lit "'".toList) (.indent (.var 0) (.var 1)) (.add (.var 0) (.lit "<i>".toList)))))

example : outOn (fun l => [l]) exTerm [.plain "<m1>".toList] =
    "[&lt;m1&gt;a\n&lt;m1&gt;b &lt;m1&gt;&#39;a\nb &lt;m1&gt;&lt;i&gt;]".toList := by decide +kernel

end JinjaV.C15
