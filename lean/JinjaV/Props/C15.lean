/-
  C15 — autoescaping never lets unescaped data or string literals into the output.

  Models: Model/Escape.lean, Model/HtmlFilt.lean (the Markup-aware filters), Model/Autoesc.lean (term language of value
  constructions: data, string literals, `~`, `+`, `%`/format, join, replace, indent, truncate, wordwrap, escape, forceescape,
  buffered bodies used as values — macro call, caller(), super(), block reference, set block —, bound values, output).
  `M` = `< > " '` (`isM`, `MFree`).  Helper lemmas: Lemmas/Escape.lean, Lemmas/HtmlFilt.lean, Lemmas/AutoescClean.lean.
  Filters and constructions outside this language are covered by the end-to-end scan of harness/props/c15.py only.
-/
import JinjaV.Lemmas.AutoescClean
import JinjaV.Model.SelectAutoescape
import JinjaV.Gen.MarkupSites
import JinjaV.Gen.OverlayCache
import JinjaV.Model.AutoescRegion

namespace JinjaV.C15
open JinjaV.Escape JinjaV.HtmlFilt JinjaV.Autoesc

/-- **escape_clean**: `escape s` contains no character of `M`, for every string (data or string literal alike: both are
    plain values and meet the output only through `escape`) -/
theorem escape_clean (s : List Char) : MFree (escape s) := (escape_esc s).mfree

example : escape "<m1 a='1' b=\"2\">".toList = "&lt;m1 a=&#39;1&#39; b=&#34;2&#34;&gt;".toList := by decide +kernel

/-- **markup_invariant**: in every term whose template text is `M`-free, evaluated under autoescape in an environment
    whose Markup values are `M`-free (context data are plain strings — arbitrary), **every Markup value constructed is
    `M`-free**: string literals and data are plain; `escape`/`forceescape` produce escaped text; a buffered body (macro
    call, caller(), super(), block reference, set block) is Markup of already-written pieces; `~`, `+`, `%`/format, join,
    replace, indent, truncate, wordwrap on mixes of Markup and plain values escape the plain operands -/
theorem markup_invariant (wrap : List Char → List (List Char)) (t : Tm) (ht : ∀ x ∈ t.texts, MFree x)
    (env : List Val) (he : ∀ v ∈ env, v.Clean) : (valOn wrap t env).Clean :=
  (clean_aux wrap t ht env he).1

/-- **output_clean**: hence everything such a term writes is `M`-free: each output piece is template text, `escape v` of a
    plain value, or an `M`-free Markup -/
theorem output_clean (wrap : List Char → List (List Char)) (t : Tm) (ht : ∀ x ∈ t.texts, MFree x)
    (env : List Val) (he : ∀ v ∈ env, v.Clean) : MFree (outOn wrap t env) :=
  (clean_aux wrap t ht env he).2

/-- with plain context data (any characters at all) nothing of `M` reaches the output -/
theorem render_clean (wrap : List Char → List (List Char)) (t : Tm) (ht : ∀ x ∈ t.texts, MFree x)
    (data : List (List Char)) : MFree (outOn wrap t (data.map Val.plain)) := by
  apply output_clean wrap t ht
  intro v hv
  obtain ⟨d, _, rfl⟩ := List.mem_map.mp hv
  trivial

/-- a set block with template text and escaped data, indented by a data string, joined with a literal, formatted into a
    Markup format: every metacharacter of data and literals arrives escaped -/
def exTerm : Tm :=
  .bind (.blk (.seq (.text "a\nb ".toList) (.emit (.var 0))))
    (.emit (.mod (.blk (.text "[%s]".toList)) (.join (.lit "'".toList) (.indent (.var 0) (.var 1)) (.add (.var 0) (.lit "<i>".toList)))))

example : outOn (fun l => [l]) exTerm [.plain "<m1>".toList] =
    "[&lt;m1&gt;a\n&lt;m1&gt;b &lt;m1&gt;&#39;a\nb &lt;m1&gt;&lt;i&gt;]".toList := by decide +kernel

/-! ## lexical autoescape regions (known finding C15:autoescape-region-around-block) -/

section Region
open JinjaV.AutoescRegion

/-- **region_partial**: lexical `{% autoescape %}` regions decide the escaping of everything written inside them — the
    engine's rendering equals the specified one — **provided no `{% block %}` tag sits in a region whose mode differs from the
    template-level mode** (`blocksAgree`).  Without the proviso the statement is false (`AutoescRegion.RegionStatement`,
    refuted in Findings/F20.lean: known finding C15:autoescape-region-around-block). -/
theorem region_partial (tmode cur : Bool) (b : Body) (h : blocksAgree tmode cur b = true) :
    render tmode cur b = renderSpec cur b := by
  induction b generalizing cur with
  | data s => rfl
  | text t => rfl
  | seq a b iha ihb =>
    simp only [blocksAgree, Bool.and_eq_true] at h
    simp only [render, renderSpec, iha cur h.1, ihb cur h.2]
  | region m b ih => exact ih m h
  | block b ih =>
    simp only [blocksAgree, Bool.and_eq_true, beq_iff_eq] at h
    obtain ⟨rfl, h2⟩ := h
    exact ih cur h2

/-- under that proviso, data written inside an autoescape-on region is escaped: with `<>"'`-free template text and no
    autoescape-off region inside, the region's output is free of `< > " '` -/
theorem region_clean (tmode : Bool) (b : Body) (h : blocksAgree tmode true b = true) (hoff : noOffRegion b = true)
    (ht : textsMFree b) : MFree (render tmode true b) := by
  rw [region_partial tmode true b h]
  clear h
  induction b with
  | data s => exact (escape_esc s).mfree
  | text t => exact ht
  | seq a b iha ihb =>
    simp only [noOffRegion, Bool.and_eq_true] at hoff
    exact MFree.append (iha hoff.1 ht.1) (ihb hoff.2 ht.2)
  | region m b ih =>
    simp only [noOffRegion, Bool.and_eq_true] at hoff
    have : m = true := hoff.1
    subst this
    exact ih hoff.2 ht
  | block b ih => exact ih hoff ht

example : blocksAgree false false (.region true (.seq (.data "<x>".toList) (.block (.data "y".toList)))) = false ∧
    blocksAgree true false (.region true (.block (.data "<x>".toList))) = true ∧
    render true false (.region true (.block (.data "<x>".toList))) = "&lt;x&gt;".toList := by decide +kernel
end Region

/-! ## where text is marked safe: the inventory READ from the source -/

/-- **markup_sites_mapped**: every `Markup(…)` call in filters.py, utils.py, runtime.py, ext.py, nodes.py, environment.py and
    every piece of emitted code mentioning `Markup` in compiler.py (READ on every run, Gen/MarkupSites.lean) is one of the
    sites this model was written against; each is covered by the clause named beside it.  A new or changed site makes
    this fail: somebody has to say which clause covers it (or the end-to-end scan has to find the leak). -/
theorem markup_sites_mapped : Gen.MarkupSites.sites = [
    ("filters", "do_xmlattr", "call: rv"),   -- C24.xmlattr_values: escaped keys and values
    ("filters", "do_urlize", "call: rv"),   -- C24.urlize_shape
    ("filters", "do_indent", "call: newline"),   -- the constant newline (HtmlFilt.indentArgs)
    ("filters", "do_striptags", "call: str(value)"),   -- only to call .striptags(); a plain str is returned
    ("filters", "do_mark_safe", "call: value"),   -- |safe: excluded by the property
    ("utils", "generate_lorem_ipsum", "call: '\\n'.join((f'<p>{markupsafe.escape(x)}</p>' for x in result))"),   -- constant words, each escaped
    ("utils", "htmlsafe_json_dumps", "call: dumps(obj, **kwargs).replace('<', '\\\\u003c').replace('>', '\\\\u003e').replace('&', '\\\\u0026').replace(\"'\", '\\\\u0027')"),   -- C24.tojson_clean
    ("runtime", "markup_join", "call: ''"),   -- Tm.cat (markupJoin): Markup("").join escapes the operands
    ("runtime", "BlockReference._async_call", "call: rv"),   -- Tm.blk
    ("runtime", "BlockReference.__call__", "call: rv"),   -- Tm.blk
    ("runtime", "Macro._async_invoke", "call: rv"),   -- Tm.blk
    ("runtime", "Macro._invoke", "call: rv"),   -- Tm.blk
    ("ext", "_make_new_gettext.gettext", "call: rv"),   -- translation strings count as template text: excluded
    ("ext", "_make_new_ngettext.ngettext", "call: rv"),   -- translation strings count as template text: excluded
    ("ext", "_make_new_pgettext.pgettext", "call: rv"),   -- translation strings count as template text: excluded
    ("ext", "_make_new_npgettext.npgettext", "call: rv"),   -- translation strings count as template text: excluded
    ("nodes", "TemplateData.as_const", "call: self.data"),   -- Tm.text
    ("nodes", "Concat.as_const", "call: ''"),   -- Tm.cat folded at compile time
    ("nodes", "MarkSafe.as_const", "call: self.expr.as_const(eval_ctx)"),   -- produced by extensions only (i18n): excluded
    ("nodes", "MarkSafeIfAutoescape.as_const", "call: expr"),   -- produced by extensions only (i18n): excluded
    ("environment", "TemplateModule.__html__", "call: concat(self._body_stream)"),   -- Tm.blk of a module body
    ("compiler", "CodeGenerator.return_buffer_contents", "emits: return Markup(concat("),   -- Tm.blk (macro / call block body)
    ("compiler", "CodeGenerator.return_buffer_contents", "emits: return Markup(concat("),   -- Tm.blk (macro / call block body)
    ("compiler", "CodeGenerator.visit_AssignBlock", "emits: = (Markup if context.eval_ctx.autoescape else identity)("),   -- Tm.blk (set block)
    ("compiler", "CodeGenerator.visit_TemplateData", "emits: (Markup if context.eval_ctx.autoescape else identity)("),   -- Tm.text
    ("compiler", "CodeGenerator.visit_Filter", "emits: (Markup(concat("),   -- Tm.blk (filter block / filtered set block)
    ("compiler", "CodeGenerator.visit_Filter", "emits: Markup(concat("),   -- Tm.blk (filter block / filtered set block)
    ("compiler", "CodeGenerator.visit_MarkSafe", "emits: Markup("),   -- produced by extensions only (i18n): excluded
    ("compiler", "CodeGenerator.visit_MarkSafeIfAutoescape", "emits: (Markup if context.eval_ctx.autoescape else identity)(")] := rfl   -- produced by extensions only (i18n): excluded

/-! ## an overlay never sees its parent's compiled templates -/

/-- **overlay_cache_fresh**: a compiled template carries its compile-time escaping decision and the template cache is keyed by
    (loader, name) only, so an overlay that changes `autoescape` is correct only if its cache starts EMPTY.  READ from
    environment.py on every run (Gen/OverlayCache.lean): every return of `copy_cache` and of `create_cache` is `None`, `{}` or a
    new `LRUCache` of the same capacity — never the parent's cache or a copy of its entries — and `Environment.overlay` always
    assigns `rv.cache` from one of these two functions (the two arms of one if/else). -/
theorem overlay_cache_fresh :
    Gen.OverlayCache.copyCacheReturns.map Prod.snd = ["none", "emptyDict", "emptyLRU"] ∧
    Gen.OverlayCache.createCacheReturns.map Prod.snd = ["none", "emptyDict", "emptyLRU"] ∧
    Gen.OverlayCache.overlayCacheAssignments = ["create_cache(cache_size)", "copy_cache(self.cache)"] ∧
    Gen.OverlayCache.overlayCacheAlwaysAssigned = true := ⟨rfl, rfl, rfl, rfl⟩

/-! ## select_autoescape -/

open JinjaV.SelectAutoescape in
/-- **select_autoescape_spec**: the name-based selector returns `default_for_string` for a template without a name; otherwise
    it looks at the lower-cased name only (case-insensitive for every idempotent `lower`), and a suffix match with an
    enabled extension wins over everything, then a match with a disabled extension, then `default` -/
theorem select_autoescape_spec (lower : List Char → List Char) (enabled disabled : List (List Char)) (dfs dflt : Bool) :
    select lower enabled disabled dfs dflt none = dfs ∧
    (∀ name, (∃ e ∈ enabled, (pattern lower e).isSuffixOf (lower name) = true) →
        select lower enabled disabled dfs dflt (some name) = true) ∧
    (∀ name, (∀ e ∈ enabled, (pattern lower e).isSuffixOf (lower name) = false) →
        (∃ d ∈ disabled, (pattern lower d).isSuffixOf (lower name) = true) →
        select lower enabled disabled dfs dflt (some name) = false) ∧
    (∀ name, (∀ e ∈ enabled, (pattern lower e).isSuffixOf (lower name) = false) →
        (∀ d ∈ disabled, (pattern lower d).isSuffixOf (lower name) = false) →
        select lower enabled disabled dfs dflt (some name) = dflt) ∧
    ((∀ s, lower (lower s) = lower s) → ∀ name,
        select lower enabled disabled dfs dflt (some (lower name)) = select lower enabled disabled dfs dflt (some name)) := by
  have hany : ∀ (n : List Char) (l : List (List Char)),
      endsWithAny n (l.map (pattern lower)) = true ↔ ∃ e ∈ l, (pattern lower e).isSuffixOf n = true := by
    intro n l
    simp [endsWithAny, List.any_eq_true]
  have hnone : ∀ (n : List Char) (l : List (List Char)), (∀ e ∈ l, (pattern lower e).isSuffixOf n = false) →
      endsWithAny n (l.map (pattern lower)) = false := by
    intro n l h
    cases hc : endsWithAny n (l.map (pattern lower)) with
    | false => rfl
    | true =>
      obtain ⟨e, he, hs⟩ := (hany n l).mp hc
      rw [h e he] at hs; cases hs
  refine ⟨rfl, ?_, ?_, ?_, ?_⟩
  · intro name h
    simp only [select, (hany _ _).mpr h, ↓reduceIte]
  · intro name h1 h2
    simp only [select, hnone _ _ h1, (hany _ _).mpr h2, Bool.false_eq_true, ↓reduceIte]
  · intro name h1 h2
    simp only [select, hnone _ _ h1, hnone _ _ h2, Bool.false_eq_true, ↓reduceIte]
  · intro hl name
    simp only [select, hl]

example : JinjaV.SelectAutoescape.select (fun s => s.map Char.toLower) ["html".toList, ".XML".toList] ["txt".toList, "html".toList] true false
      (some "A/Page.HTML".toList) = true ∧
    JinjaV.SelectAutoescape.select (fun s => s.map Char.toLower) ["html".toList] ["txt".toList] true true (some "x.TXT".toList) = false ∧
    JinjaV.SelectAutoescape.select (fun s => s.map Char.toLower) ["html".toList] ["txt".toList] true false (some "xhtml".toList) = false := by
  decide +kernel

end JinjaV.C15
