/-
  C10 — all rendering entry points yield the same text; buffered chunks have exactly
  the requested number of non-empty pieces.
-/
import JinjaV.Model.Stream

namespace JinjaV.C10
open JinjaV.Stream

theorem join_append (a b : List String) : String.join (a ++ b) = String.join a ++ String.join b := by
  induction a with
  | nil => simp [String.join]
  | cons x a ih => simp [String.join_cons, ih, String.append_assoc]

theorem join_flatten (gs : List (List String)) :
    String.join (gs.map String.join) = String.join gs.flatten := by
  induction gs with
  | nil => rfl
  | cons g gs ih => simp [String.join_cons, join_append, ih]

theorem ne_append (a b : List String) : ne (a ++ b) = ne a + ne b := by simp [ne]

theorem ne_single (p : String) : ne [p] = if p = "" then 0 else 1 := by
  by_cases h : p = "" <;> simp [ne, h]

/-- general invariant of the buffering loop -/
theorem groupsAux_spec (size : Nat) (hs : 1 ≤ size) (gen buf : List String) (c : Nat)
    (hc : c = ne buf) (hlt : c < size) :
    -- (1) text: the groups re-assemble `buf ++ gen`, up to trailing empty pieces that are dropped
    (String.join (groupsAux size gen buf c).flatten = String.join (buf ++ gen)) ∧
    -- (2) every group holds at least one and at most `size` non-empty pieces
    (∀ g ∈ groupsAux size gen buf c, 1 ≤ ne g ∧ ne g ≤ size) ∧
    -- (3) every group but the last holds exactly `size`
    (∀ g ∈ (groupsAux size gen buf c).dropLast, ne g = size) := by
  induction gen generalizing buf c with
  | nil =>
    unfold groupsAux
    by_cases h0 : c = 0
    · simp only [h0, if_true]
      refine ⟨?_, by simp, by simp⟩
      -- buf consists of empty pieces only
      have hall : ∀ p ∈ buf, p = "" := by
        intro p hp
        have : ne buf = 0 := by omega
        simp only [ne, List.length_eq_zero_iff, List.filter_eq_nil_iff] at this
        have := this p hp
        simpa using this
      have : String.join buf = "" := by
        clear hc hlt
        induction buf with
        | nil => rfl
        | cons x xs ih =>
          have hx := hall x (by simp)
          have := ih (fun p hp => hall p (by simp [hp]))
          simp [String.join_cons, hx, this]
      simp [this]
    · simp only [h0, if_false]
      refine ⟨by simp, ?_, by simp⟩
      intro g hg; simp at hg; subst hg; omega
  | cons p r ih =>
    unfold groupsAux
    simp only
    have hc' : (if p = "" then c else c + 1) = ne (buf ++ [p]) := by
      rw [ne_append, ne_single]; split <;> omega
    have hb1 : (if p = "" then c else c + 1) ≤ c + 1 := by split <;> omega
    have hb2 : c ≤ (if p = "" then c else c + 1) := by split <;> omega
    generalize (if p = "" then c else c + 1) = c' at *
    by_cases hfull : c' ≥ size
    · simp only [hfull, if_true]
      obtain ⟨i1, i2, i3⟩ := ih [] 0 (by simp [ne]) (by omega)
      refine ⟨?_, ?_, ?_⟩
      · simp only [List.flatten_cons, join_append] at i1 ⊢
        rw [i1]; simp [join_append, String.append_assoc]
      · intro g hg
        simp at hg
        rcases hg with rfl | hg
        · rw [← hc']; constructor <;> omega
        · exact i2 g hg
      · intro g hg
        cases hr : groupsAux size r [] 0 with
        | nil => simp [hr] at hg
        | cons g' gs =>
          rw [hr, List.dropLast_cons_cons] at hg
          simp at hg
          rcases hg with rfl | hg
          · rw [← hc']; omega
          · exact i3 g (by rw [hr]; exact hg)
    · simp only [hfull, if_false]
      obtain ⟨i1, i2, i3⟩ := ih (buf ++ [p]) _ hc' (by omega)
      exact ⟨by rw [i1]; simp, i2, i3⟩

/-- **C10 (text)**: concatenating the buffered chunks gives the concatenation of the
    pieces, for every piece list and every buffer size ≥ 1 -/
theorem buffered_concat (size : Nat) (hs : 1 ≤ size) (pieces : List String) :
    concat (buffered size pieces) = concat pieces := by
  unfold concat buffered groups
  rw [join_flatten]
  have := (groupsAux_spec size hs pieces [] 0 (by simp [ne]) (by omega)).1
  simpa using this

/-- **C10 (chunks)**: every chunk but the last combines exactly `size` non-empty
    pieces; no chunk is made of empty pieces only; none exceeds `size` -/
theorem buffered_chunks (size : Nat) (hs : 1 ≤ size) (pieces : List String) :
    (∀ g ∈ (groups size pieces).dropLast, ne g = size) ∧
    (∀ g ∈ groups size pieces, 1 ≤ ne g ∧ ne g ≤ size) := by
  have := groupsAux_spec size hs pieces [] 0 (by simp [ne]) (by omega)
  exact ⟨this.2.2, this.2.1⟩

-- non-vacuity
example : buffered 2 ["a", "", "bc", "", "d", ""] = ["abc", "d"] := by decide

end JinjaV.C10
