/-
  C26 — the LRU cache behaves like a least-recently-used map under any use.

  Sequential part: the model of `jinja2.utils.LRUCache` (Model/LRU.lean) refines
  the reference LRU map (Spec/LRU.lean) for every operation sequence; the
  capacity bound and the "no internal error" claim follow.  The schedule part is
  in `Props/C26Sched.lean`.
-/
import JinjaV.Lemmas.LRU

namespace JinjaV.C26
open JinjaV.LRU JinjaV.SpecLRU

/-- simulation relation between the implementation model and the reference map -/
structure R (s : State) (sp : Spec) : Prop where
  cap : s.cap = sp.cap
  cap_pos : 1 ≤ s.cap
  order : sp.items.map Prod.fst = s.queue.reverse
  nodup : s.queue.Nodup
  mnodup : (keys s.mapping).Nodup
  lookup : ∀ k, mget s.mapping k = find sp.items k
  len : s.mapping.length = sp.items.length
  bound : s.mapping.length ≤ s.cap

theorem R_init (c : Nat) (h : 1 ≤ c) : R (LRU.init c) (SpecLRU.init c) := by
  constructor <;> simp [LRU.init, SpecLRU.init, mget, find, h]

private theorem mem_queue_iff {s sp} (r : R s sp) (k : K) :
    k ∈ s.queue ↔ (find sp.items k).isSome := by
  have h1 := find_none_iff sp.items k
  rw [r.order] at h1
  cases h : find sp.items k <;> simp_all

private theorem mem_keys_iff {s sp} (r : R s sp) (k : K) :
    k ∈ keys s.mapping ↔ k ∈ s.queue := by
  rw [mem_queue_iff r, ← r.lookup, ← mhas_iff]; rfl

private theorem spec_nodup {s sp} (r : R s sp) : (sp.items.map Prod.fst).Nodup := by
  rw [r.order]; exact ((List.reverse_perm _).nodup_iff).2 r.nodup

/-- using a present key -/
theorem touch_R {s sp} (r : R s sp) (k : K) (v : V) (hv : find sp.items k = some v) :
    R { s with queue := qremove s.queue k ++ [k] } (touch sp k v) := by
  have hk : k ∈ s.queue := by rw [mem_queue_iff r, hv]; rfl
  constructor
  · exact r.cap
  · exact r.cap_pos
  · simp [touch, map_fst_remove, r.order, rem_reverse, qremove_eq_rem _ _ r.nodup]
  · simp [qremove_eq_rem _ _ r.nodup]
    rw [List.nodup_append]
    refine ⟨nodup_rem _ _ r.nodup, by simp, ?_⟩
    intro a ha b hb
    simp at hb; subst hb
    exact ((mem_rem _ _ _).1 ha).2
  · exact r.mnodup
  · intro k'
    simp only [touch]
    rw [r.lookup]
    by_cases h : k = k'
    · subst h; simp [find, hv]
    · rw [find_cons_ne _ _ _ _ h, find_remove]; simp [h]
  · simp only [touch, List.length_cons]
    have := length_remove sp.items k (spec_nodup r) (by rw [r.order]; simpa using hk)
    have := r.len
    omega
  · exact r.bound

theorem getitem_miss {s sp} (r : R s sp) (k : K) (hv : find sp.items k = none) :
    getitem s k = (s, .keyError) := by
  unfold getitem; rw [r.lookup, hv]

theorem getitem_refines {s sp} (r : R s sp) (k : K) :
    R (getitem s k).1 (SpecLRU.step sp (.getitem k)).1 ∧
    (getitem s k).2 = (SpecLRU.step sp (.getitem k)).2 := by
  cases hv : find sp.items k with
  | none =>
    have hs : SpecLRU.step sp (.getitem k) = (sp, .keyError) := by simp only [SpecLRU.step, hv]
    rw [getitem_miss r k hv, hs]; exact ⟨r, rfl⟩
  | some v =>
    have hs : SpecLRU.step sp (.getitem k) = (touch sp k v, .val v) := by
      simp only [SpecLRU.step, hv]
    rw [hs]
    have hk : k ∈ s.queue := by rw [mem_queue_iff r, hv]; rfl
    cases hl : s.queue.getLast? with
    | none => simp [List.getLast?_eq_none_iff] at hl; simp [hl] at hk
    | some lastk =>
      by_cases hne : lastk = k
      · subst hne
        have hg : getitem s lastk = (s, .val v) := by
          unfold getitem; rw [r.lookup, hv]; simp only [hl]; simp
        rw [hg]
        refine ⟨?_, rfl⟩
        -- spec: touching the most recent key changes nothing
        have hq : qremove s.queue lastk ++ [lastk] = s.queue := by
          obtain ⟨q', hq'⟩ : ∃ q', s.queue = q' ++ [lastk] := by
            have := List.getLast?_eq_some_iff.1 hl
            obtain ⟨ys, h⟩ := this; exact ⟨ys, h⟩
          have hnd := r.nodup
          rw [hq'] at hnd ⊢
          rw [qremove_eq_rem _ _ hnd, rem_append]
          have : lastk ∉ q' := by
            rw [List.nodup_append] at hnd
            intro hm; exact hnd.2.2 _ hm _ (by simp) rfl
          simp [rem_of_not_mem _ _ this, rem]
        have := touch_R r lastk v hv
        rw [hq] at this
        exact this
      · have hg : getitem s k =
            ({ s with queue := qremove s.queue k ++ [k] }, .val v) := by
          unfold getitem; rw [r.lookup, hv]; simp only [hl]; simp [hne]
        rw [hg]
        exact ⟨touch_R r k v hv, rfl⟩

theorem put_R {s sp} (r : R s sp) (k : K) (v : V) :
    R (setitem s k v).1 (put sp k v) ∧ (setitem s k v).2 = .none := by
  unfold setitem put
  by_cases hm : mhas s.mapping k = true
  · have hk : k ∈ s.queue := by rw [← mem_keys_iff r, ← mhas_iff]; exact hm
    have hsome : (find sp.items k).isSome := by rw [← mem_queue_iff r]; exact hk
    obtain ⟨v0, hv0⟩ := Option.isSome_iff_exists.1 hsome
    simp only [hm, if_true, hk, hv0]
    refine ⟨?_, trivial⟩
    have t := touch_R r k v0 hv0
    have hkm : k ∈ keys s.mapping := (mhas_iff _ _).1 hm
    constructor
    · exact r.cap
    · exact r.cap_pos
    · simpa [touch] using t.order
    · exact t.nodup
    · show (keys (mset s.mapping k v)).Nodup
      rw [keys_mset_of_mem _ _ _ hkm]; exact r.mnodup
    · intro k'
      show mget (mset s.mapping k v) k' = find ((k, v) :: remove sp.items k) k'
      rw [mget_mset]
      by_cases h : k = k'
      · subst h; simp [find]
      · rw [find_cons_ne _ _ _ _ h, find_remove, r.lookup]; simp [h]
    · show (mset s.mapping k v).length = ((k, v) :: remove sp.items k).length
      have e1 : (mset s.mapping k v).length = s.mapping.length := by
        have := congrArg List.length (keys_mset_of_mem s.mapping k v hkm)
        simpa [keys] using this
      have := t.len
      simp only [touch, List.length_cons] at this
      simp only [List.length_cons]; omega
    · show (mset s.mapping k v).length ≤ s.cap
      have e1 : (mset s.mapping k v).length = s.mapping.length := by
        have := congrArg List.length (keys_mset_of_mem s.mapping k v hkm)
        simpa [keys] using this
      rw [e1]; exact r.bound
  · have hm' : mhas s.mapping k = false := by simpa using hm
    have hkm : k ∉ keys s.mapping := by rw [← mhas_iff]; simp [hm']
    have hk : k ∉ s.queue := by rw [← mem_keys_iff r]; exact hkm
    have hnone : find sp.items k = none := by
      rw [← r.lookup]; exact (mget_none_iff _ _).2 hkm
    simp only [hm', Bool.false_eq_true, if_false, hnone]
    by_cases hfull : s.mapping.length = s.cap
    · have hfull' : sp.items.length = sp.cap := by rw [← r.len, ← r.cap]; exact hfull
      simp only [hfull, hfull', if_true]
      cases hq : s.queue with
      | nil =>
        -- impossible: the map is full and capacity ≥ 1
        exfalso
        have h1 := r.order; rw [hq] at h1
        have h2 : sp.items = [] := by simpa using h1
        have h3 := r.len; rw [h2] at h3
        have h4 := r.cap_pos
        simp only [List.length_nil] at h3; omega
      | cons old q' =>
        have hold : old ∈ s.queue := by rw [hq]; simp
        have holdm : old ∈ keys s.mapping := (mem_keys_iff r old).2 hold
        have hmold : mhas s.mapping old = true := (mhas_iff _ _).2 holdm
        simp only [hmold, if_true]
        refine ⟨?_, trivial⟩
        have hnd := r.nodup; rw [hq] at hnd
        have hnd' := List.nodup_cons.1 hnd
        have hne : ¬ old = k := by intro h; subst h; exact hk hold
        -- the last spec item is `old`
        have hlast : sp.items.getLast?.map Prod.fst = some old := by
          have := congrArg List.getLast? r.order
          rw [hq] at this
          simpa [List.getLast?_map] using this
        have hkd : k ∉ keys (mdel s.mapping old) := by
          rw [mem_keys_mdel _ _ _ r.mnodup]; intro h; exact hkm h.1
        constructor
        · exact r.cap
        · exact r.cap_pos
        · show ((k, v) :: sp.items.dropLast).map Prod.fst = (q' ++ [k]).reverse
          have h1 := congrArg List.dropLast r.order
          rw [hq] at h1
          simp at h1
          simp only [List.map_cons, List.reverse_append, List.reverse_cons, List.reverse_nil,
            List.nil_append, List.cons_append]
          rw [← h1, List.map_dropLast]
        · show (q' ++ [k]).Nodup
          rw [List.nodup_append]
          refine ⟨hnd'.2, by simp, ?_⟩
          intro a ha b hb
          simp at hb; subst hb
          intro h; subst h; apply hk; rw [hq]; simp [ha]
        · show (keys (mset (mdel s.mapping old) k v)).Nodup
          rw [keys_mset_of_not_mem _ _ _ hkd, List.nodup_append]
          refine ⟨nodup_keys_mdel _ _ r.mnodup, by simp, ?_⟩
          intro a ha b hb
          simp at hb; subst hb
          intro h; subst h; exact hkd ha
        · intro k'
          show mget (mset (mdel s.mapping old) k v) k' = find ((k, v) :: sp.items.dropLast) k'
          rw [mget_mset]
          by_cases h : k = k'
          · subst h; simp [find]
          · rw [find_cons_ne _ _ _ _ h, find_dropLast _ _ (spec_nodup r), hlast,
              mget_mdel _ _ _ r.mnodup, r.lookup]
            simp [h]
        · show (mset (mdel s.mapping old) k v).length = ((k, v) :: sp.items.dropLast).length
          have e1 : (mset (mdel s.mapping old) k v).length = (mdel s.mapping old).length + 1 := by
            have := congrArg List.length (keys_mset_of_not_mem _ k v hkd)
            simpa [keys] using this
          have e2 := length_mdel s.mapping old holdm
          have := r.len
          simp only [List.length_cons, List.length_dropLast]
          omega
        · show (mset (mdel s.mapping old) k v).length ≤ s.cap
          have e1 : (mset (mdel s.mapping old) k v).length = (mdel s.mapping old).length + 1 := by
            have := congrArg List.length (keys_mset_of_not_mem _ k v hkd)
            simpa [keys] using this
          have e2 := length_mdel s.mapping old holdm
          have := r.bound
          omega
    · have hfull' : ¬ sp.items.length = sp.cap := by rw [← r.len, ← r.cap]; exact hfull
      simp only [hfull, hfull', if_false]
      refine ⟨?_, trivial⟩
      have e1 : (mset s.mapping k v).length = s.mapping.length + 1 := by
        have := congrArg List.length (keys_mset_of_not_mem s.mapping k v hkm)
        simpa [keys] using this
      constructor
      · exact r.cap
      · exact r.cap_pos
      · show ((k, v) :: sp.items).map Prod.fst = (s.queue ++ [k]).reverse
        simp [r.order]
      · show (s.queue ++ [k]).Nodup
        rw [List.nodup_append]
        refine ⟨r.nodup, by simp, ?_⟩
        intro a ha b hb
        simp at hb; subst hb
        intro h; subst h; exact hk ha
      · show (keys (mset s.mapping k v)).Nodup
        rw [keys_mset_of_not_mem _ _ _ hkm, List.nodup_append]
        refine ⟨r.mnodup, by simp, ?_⟩
        intro a ha b hb
        simp at hb; subst hb
        intro h; subst h; exact hkm ha
      · intro k'
        show mget (mset s.mapping k v) k' = find ((k, v) :: sp.items) k'
        rw [mget_mset]
        by_cases h : k = k'
        · subst h; simp [find]
        · rw [find_cons_ne _ _ _ _ h, r.lookup]; simp [h]
      · show (mset s.mapping k v).length = ((k, v) :: sp.items).length
        have := r.len
        simp only [List.length_cons]; omega
      · show (mset s.mapping k v).length ≤ s.cap
        have := r.bound
        omega

theorem del_refines {s sp} (r : R s sp) (k : K) :
    R (delitem s k).1 (SpecLRU.step sp (.del k)).1 ∧
    (delitem s k).2 = (SpecLRU.step sp (.del k)).2 := by
  unfold delitem SpecLRU.step
  by_cases hm : mhas s.mapping k = true
  · have hkm : k ∈ keys s.mapping := (mhas_iff _ _).1 hm
    have hk : k ∈ s.queue := (mem_keys_iff r k).1 hkm
    have hsome : (find sp.items k).isSome := by rw [← mem_queue_iff r]; exact hk
    obtain ⟨v0, hv0⟩ := Option.isSome_iff_exists.1 hsome
    simp only [hm, if_true, hv0]
    refine ⟨?_, trivial⟩
    constructor
    · exact r.cap
    · exact r.cap_pos
    · show (remove sp.items k).map Prod.fst = (qremove s.queue k).reverse
      rw [map_fst_remove, r.order, rem_reverse, qremove_eq_rem _ _ r.nodup]
    · show (qremove s.queue k).Nodup
      rw [qremove_eq_rem _ _ r.nodup]; exact nodup_rem _ _ r.nodup
    · exact nodup_keys_mdel _ _ r.mnodup
    · intro k'
      show mget (mdel s.mapping k) k' = find (remove sp.items k) k'
      rw [mget_mdel _ _ _ r.mnodup, find_remove, r.lookup]
    · show (mdel s.mapping k).length = (remove sp.items k).length
      have e1 := length_mdel s.mapping k hkm
      have e2 := length_remove sp.items k (spec_nodup r) (by rw [r.order]; simpa using hk)
      have := r.len
      omega
    · show (mdel s.mapping k).length ≤ s.cap
      have e1 := length_mdel s.mapping k hkm
      have := r.bound
      omega
  · have hm' : mhas s.mapping k = false := by simpa using hm
    have hkm : k ∉ keys s.mapping := by rw [← mhas_iff]; simp [hm']
    have hnone : find sp.items k = none := by
      rw [← r.lookup]; exact (mget_none_iff _ _).2 hkm
    simp only [hm', Bool.false_eq_true, if_false, hnone]
    exact ⟨r, trivial⟩

private theorem itemsOf_go_eq {s sp} (r : R s sp) :
    ∀ (q : List K) (its : List (K × V)), its.map Prod.fst = q →
      (∀ p ∈ its, find sp.items p.1 = some p.2) →
      LRU.itemsOf.go s q = some its := by
  intro q
  induction q with
  | nil => intro its h _; simp at h; subst h; rfl
  | cons k q ih =>
    intro its h hf
    cases its with
    | nil => simp at h
    | cons p its =>
      simp at h
      obtain ⟨h1, h2⟩ := h
      have := hf p (by simp)
      rw [← r.lookup, h1] at this
      simp [LRU.itemsOf.go, this, ih its h2 (fun p hp => hf p (by simp [hp]))]
      rw [← h1]

private theorem find_of_mem_nodup (l : List (K × V)) (hn : (l.map Prod.fst).Nodup) :
    ∀ p ∈ l, find l p.1 = some p.2 := by
  induction l with
  | nil => simp
  | cons q l ih =>
    obtain ⟨a, b⟩ := q
    intro p hp
    simp at hn
    simp at hp
    rcases hp with hp | hp
    · subst hp; simp [find]
    · have : ¬ a = p.1 := by
        intro h; apply hn.1 p.2; rw [h]; exact hp
      rw [find_cons_ne _ _ _ _ this]
      exact ih (by simpa using hn.2) p hp

theorem itemsOf_eq {s sp} (r : R s sp) : itemsOf s = some sp.items := by
  unfold itemsOf
  have := itemsOf_go_eq r s.queue sp.items.reverse
    (by rw [List.map_reverse, r.order]; simp)
    (by intro p hp; exact find_of_mem_nodup _ (spec_nodup r) p (by simpa using hp))
  simp [this]

/-- **one-step refinement**: every operation of the implementation model produces the
    output of the reference LRU map and re-establishes the simulation relation -/
theorem step_refines {s sp} (r : R s sp) (op : Op) :
    R (LRU.step s op).1 (SpecLRU.step sp op).1 ∧ (LRU.step s op).2 = (SpecLRU.step sp op).2 := by
  cases op with
  | getitem k => exact getitem_refines r k
  | get k d =>
    cases hv : find sp.items k with
    | none =>
      have hs : SpecLRU.step sp (.get k d) = (sp, .val d) := by simp only [SpecLRU.step, hv]
      have hi : LRU.step s (.get k d) = (s, .val d) := by
        simp only [LRU.step, getitem_miss r k hv]
      rw [hs, hi]; exact ⟨r, rfl⟩
    | some v =>
      have h := getitem_refines r k
      have hs : SpecLRU.step sp (.getitem k) = (touch sp k v, .val v) := by
        simp only [SpecLRU.step, hv]
      have hs' : SpecLRU.step sp (.get k d) = (touch sp k v, .val v) := by
        simp only [SpecLRU.step, hv]
      rw [hs] at h; rw [hs']
      obtain ⟨h1, h2⟩ := h
      have hi : LRU.step s (.get k d) = getitem s k := by
        simp only [LRU.step]
        cases hg : getitem s k with
        | mk s' o => rw [hg] at h2; simp at h2; subst h2; rfl
      rw [hi]; exact ⟨h1, h2⟩
  | set k v => exact put_R r k v
  | del k => exact del_refines r k
  | setdefault k d =>
    cases hv : find sp.items k with
    | none =>
      have hs : SpecLRU.step sp (.setdefault k d) = (put sp k d, .val d) := by
        simp only [SpecLRU.step, hv]
      have hp := put_R r k d
      have hi : LRU.step s (.setdefault k d) = ((setitem s k d).1, .val d) := by
        simp only [LRU.step, getitem_miss r k hv]
        cases hst : setitem s k d with
        | mk s'' o' => rw [hst] at hp; obtain ⟨_, hp2⟩ := hp; simp at hp2; subst hp2; rfl
      rw [hs, hi]; exact ⟨hp.1, rfl⟩
    | some v =>
      have h := getitem_refines r k
      have hs : SpecLRU.step sp (.getitem k) = (touch sp k v, .val v) := by
        simp only [SpecLRU.step, hv]
      have hs' : SpecLRU.step sp (.setdefault k d) = (touch sp k v, .val v) := by
        simp only [SpecLRU.step, hv]
      rw [hs] at h; rw [hs']
      obtain ⟨h1, h2⟩ := h
      have hi : LRU.step s (.setdefault k d) = getitem s k := by
        simp only [LRU.step]
        cases hg : getitem s k with
        | mk s' o => rw [hg] at h2; simp at h2; subst h2; rfl
      rw [hi]; exact ⟨h1, h2⟩
  | contains k =>
    refine ⟨r, ?_⟩
    simp [LRU.step, SpecLRU.step, mhas, r.lookup]
  | len => exact ⟨r, by simp [LRU.step, SpecLRU.step, r.len]⟩
  | clear =>
    refine ⟨?_, rfl⟩
    show R { s with mapping := [], queue := [] } { sp with items := [] }
    exact ⟨r.cap, r.cap_pos, rfl, List.nodup_nil, List.nodup_nil, fun _ => rfl, rfl,
      Nat.zero_le _⟩
  | copy => exact ⟨r, rfl⟩
  | pickle => exact ⟨r, rfl⟩
  | keys => exact ⟨r, by simp [LRU.step, SpecLRU.step, r.order]⟩
  | iter => exact ⟨r, by simp [LRU.step, SpecLRU.step, r.order]⟩
  | reversed => exact ⟨r, by simp [LRU.step, SpecLRU.step, r.order]⟩
  | items =>
    have hi : LRU.step s .items = (s, .items sp.items) := by
      simp only [LRU.step, itemsOf_eq r]
    rw [hi]; exact ⟨r, rfl⟩
  | values =>
    have hi : LRU.step s .values = (s, .vals (sp.items.map Prod.snd)) := by
      simp only [LRU.step, itemsOf_eq r]
    rw [hi]; exact ⟨r, rfl⟩

/-- **C26 (sequential)**: for every capacity ≥ 1 and *every* operation sequence the
    implementation model returns exactly the outputs of the reference LRU map. -/
theorem run_refines {s sp} (r : R s sp) (ops : List Op) :
    (LRU.run s ops).2 = (SpecLRU.run sp ops).2 ∧ R (LRU.run s ops).1 (SpecLRU.run sp ops).1 := by
  induction ops generalizing s sp with
  | nil => exact ⟨rfl, r⟩
  | cons op ops ih =>
    obtain ⟨h1, h2⟩ := step_refines r op
    simp only [LRU.run, SpecLRU.run]
    have := ih h1
    rw [h2]
    exact ⟨by rw [this.1], this.2⟩

theorem lru_eq_reference (c : Nat) (hc : 1 ≤ c) (ops : List Op) :
    (LRU.run (LRU.init c) ops).2 = (SpecLRU.run (SpecLRU.init c) ops).2 :=
  (run_refines (R_init c hc) ops).1

/-- the cache never exceeds its capacity, in any reachable state -/
theorem capacity_never_exceeded (c : Nat) (hc : 1 ≤ c) (ops : List Op) :
    (LRU.run (LRU.init c) ops).1.mapping.length ≤ c := by
  have r := (run_refines (R_init c hc) ops).2
  have h1 := r.bound
  have h2 : (LRU.run (LRU.init c) ops).1.cap = c := by
    have := r.cap
    have hs : ∀ (sp : Spec) (ops : List Op), (SpecLRU.run sp ops).1.cap = sp.cap := by
      intro sp ops
      induction ops generalizing sp with
      | nil => rfl
      | cons op ops ih =>
        simp only [SpecLRU.run]
        rw [ih]
        cases op <;> simp [SpecLRU.step, touch, put] <;> (repeat' split) <;> rfl
    rw [this, hs]; rfl
  omega

/-- no call ever takes one of the "cannot happen" paths (IndexError / ValueError /
    inner KeyError): the reference map never outputs `internal` -/
theorem spec_never_internal (sp : Spec) (op : Op) : (SpecLRU.step sp op).2 ≠ .internal := by
  cases op <;> simp [SpecLRU.step] <;> (repeat' split) <;> simp

theorem never_internal (c : Nat) (hc : 1 ≤ c) (ops : List Op) :
    Out.internal ∉ (LRU.run (LRU.init c) ops).2 := by
  rw [lru_eq_reference c hc ops]
  generalize SpecLRU.init c = sp
  induction ops generalizing sp with
  | nil => simp [SpecLRU.run]
  | cons op ops ih =>
    simp only [SpecLRU.run, List.mem_cons, not_or]
    exact ⟨fun h => spec_never_internal sp op h.symm, ih _⟩

/-- copying and pickling preserve contents and recency order (the model state is
    returned field by field; the correspondence run checks the real `copy`/`pickle`) -/
theorem copy_pickle_identity (s : State) :
    (LRU.step s .copy).1 = s ∧ (LRU.step s .pickle).1 = s := ⟨rfl, rfl⟩

-- non-vacuity: a concrete run that evicts, re-orders and deletes
example : (LRU.run (LRU.init 2) [.set 1 10, .set 2 20, .getitem 1, .set 3 30, .contains 2, .keys]).2
    = [.none, .none, .val 10, .none, .bool false, .keys [3, 1]] := by decide

end JinjaV.C26
