/-
  C34 — native rendering returns the value itself or the literal value of the text.
-/
import JinjaV.Model.Native
import JinjaV.Model.NativeTpl
import JinjaV.Lemmas.LexData
import JinjaV.Lemmas.NativeTplGuard
import JinjaV.Gen.NativeGuards

namespace JinjaV.C34
open JinjaV.Native

/-- the documented result, stated on the whole piece list -/
def spec {L : Type} (litEval : String → Option L) (values : List Val) : Res L :=
  match values with
  | [] => .none
  | [.obj id s] => .value (.obj id s)
  | vs =>
    -- the literal value of the concatenated text when it parses as a literal, else the text
    parse litEval (String.join (vs.map Val.toStr))

theorem join_single (s : String) : String.join [s] = s := by
  simp [String.join_cons]

/-- **C34**: for every piece list, both ways the pieces arrive (list / generator) and
    any literal evaluator, `native_concat` returns the documented result -/
theorem native_concat_spec {L : Type} (litEval : String → Option L) (isGen : Bool) (values : List Val) :
    nativeConcat litEval isGen values = spec litEval values := by
  unfold nativeConcat spec
  match values with
  | [] => rfl
  | [.str s] => simp [Val.toStr, join_single]
  | [.obj id s] => rfl
  | a :: b :: rest =>
    simp only [List.take, List.drop]
    cases isGen <;> simp

/-- a single non-string value comes back as itself, never through `str()`/parsing -/
theorem single_value_identity {L : Type} (litEval : String → Option L) (isGen : Bool) (id : Nat) (s : String) :
    nativeConcat litEval isGen [.obj id s] = .value (.obj id s) := rfl

/-- the order of the pieces in the text is the order in which they were produced -/
theorem text_is_concatenation {L : Type} (isGen : Bool) (a b : Val) (rest : List Val) :
    nativeConcat (fun _ => (none : Option L)) isGen (a :: b :: rest) =
      .text (String.join ((a :: b :: rest).map Val.toStr)) := by
  rw [native_concat_spec]; simp [spec, parse]

-- non-vacuity
example : nativeConcat (fun s => if s = "12" then some (12 : Nat) else none) true [.str "1", .obj 7 "2"] = .literal 12 := by
  decide

/-! ### templates: one expression plus material that compiles to nothing -/

open JinjaV.Lex JinjaV.NativeTpl

/-- **no empty data token**: for every configuration and source, the lexer model emits no `data` token with an
    empty text — whitespace removed by a `-` sign, `lstrip_blocks` or `trim_blocks` leaves no token behind -/
theorem lex_data_nonempty (cfg : Cfg) (src : Str) (toks : List Tok) (h : tokeniter cfg src = .ok toks) :
    ∀ t ∈ toks, t.kind = .data → t.text ≠ [] := by
  have := JinjaV.LexData.tokeniter_ok cfg src
  rw [h] at this
  exact this

/-- … hence the parser is never handed one (`Lexer.wrap` keeps the text of a data token) -/
theorem wrap_data_nonempty (cfg : Cfg) (src : Str) (toks : List Tok) (h : tokeniter cfg src = .ok toks) :
    PTok.data [] ∉ wrap toks := by
  intro hm
  simp only [wrap, List.mem_filterMap] at hm
  obtain ⟨t, ht, hw⟩ := hm
  have hne := lex_data_nonempty cfg src toks h t ht
  unfold wrapTok at hw
  split at hw <;> simp_all

/-- **guards in the source** (READ on every run, `Gen/NativeGuards.lean`): at least one of the two stages that can
    drop an empty data token does so — the lexer (`data ∈ ignore_if_empty`, the emptiness test guards the yield and is
    made on the yielded value) or `Parser.subparse` (`if token.value:`) -/
theorem source_guards_present :
    JinjaV.Gen.NativeGuards.lexerDropsEmptyData = true ∨ JinjaV.Gen.NativeGuards.subparseSkipsEmptyData = true := by
  decide

/-- with the parser's guard an empty data token changes nothing: not the pieces, not the Output grouping -/
theorem empty_data_invisible (n : Nat) (r : List PTok) (st : NativeTpl.St) :
    interp true (n + 1) (.data [] :: r) st = interp true n r st := by
  simp [interp]

/-- … and because the lexer stage hands over no empty data token (`wrap_data_nonempty`), the parser's guard is
    redundant for every source: the pieces are the same with and without it.  Either stage alone keeps an empty
    string from being yielded next to the expression; `source_guards_present` says one of them is in the source. -/
theorem pieces_independent_of_parser_guard (cfg : Cfg) (src : Str) (vars : List (Str × Option Val))
    (conds : List (Str × Bool)) :
    piecesOfSource true cfg src vars conds = piecesOfSource false cfg src vars conds := by
  unfold piecesOfSource
  split
  · rename_i toks h
    unfold pieces
    rw [JinjaV.NativeTplGuard.guard_irrelevant _ _ _ (wrap_data_nonempty cfg src toks h)
      (by simpa [initState] using JinjaV.NativeTplGuard.macrosOk_nil)]
  · rfl

/-- without the guard it becomes a piece of its own next to an expression (what the guard is for) -/
example : pieces false [.data [], .varBegin, .name ['x'], .varEnd] [(['x'], some (.obj 0 "o"))] [] =
    some [.str "", .obj 0 "o"] := by decide
example : pieces true [.data [], .varBegin, .name ['x'], .varEnd] [(['x'], some (.obj 0 "o"))] [] =
    some [.obj 0 "o"] := by decide

/-! ### compile-time constant output expressions: one piece per maximal run, empty or not -/

/-- a child of an Output node as the native generator sees it: a constant (template data or a constant expression,
    with its text) or a runtime expression (with its value) -/
inductive Child where
  | const (s : String)
  | val (v : Val)

def emitChild (st : NativeTpl.St) : Child → NativeTpl.St
  | .const s => pushConst st s
  | .val v => pushVal st v

/-- what the interpreter does with the children of one output run -/
def emitChildren (st : NativeTpl.St) (cs : List Child) : NativeTpl.St := cs.foldl emitChild st

/-- the documented number of pieces of a run: one per runtime expression and one per MAXIMAL run of constants —
    whatever their text, the empty string included (`inRun`: the run continues a constant group already open) -/
def runPieces : Bool → List Child → Nat
  | _, [] => 0
  | inRun, .const _ :: r => (if inRun then 0 else 1) + runPieces true r
  | _, .val _ :: r => 1 + runPieces false r

/-- state invariant of the interpreter: an open constant group is the newest piece and is a string -/
def GroupOpen (st : NativeTpl.St) : Prop := st.lastData = true → ∃ t r, st.out = .str t :: r

theorem emitChild_spec (st : NativeTpl.St) (c : Child) (hl : st.live = true) (hw : GroupOpen st) :
    (emitChild st c).live = true ∧ GroupOpen (emitChild st c) ∧
    (emitChild st c).out.length = st.out.length + runPieces st.lastData [c] ∧
    (emitChild st c).lastData = (match c with | .const _ => true | .val _ => false) := by
  cases c with
  | val v => simp [emitChild, pushVal, hl, GroupOpen, runPieces]
  | const s =>
    cases hd : st.lastData with
    | false =>
      simp [emitChild, pushConst, pushData, hl, hd, GroupOpen, runPieces]
    | true =>
      obtain ⟨t, r, ho⟩ := hw hd
      simp [emitChild, pushConst, pushData, hl, hd, ho, GroupOpen, runPieces]

/-- **one piece per maximal constant run, empty or not; runtime expressions are never merged or dropped**:
    for every run of children and every live state, the interpreter adds exactly `runPieces` pieces -/
theorem output_run_pieces (cs : List Child) (st : NativeTpl.St) (hl : st.live = true) (hw : GroupOpen st) :
    (emitChildren st cs).out.length = st.out.length + runPieces st.lastData cs := by
  induction cs generalizing st with
  | nil => simp [emitChildren, runPieces]
  | cons c r ih =>
    obtain ⟨h1, h2, h3, h4⟩ := emitChild_spec st c hl hw
    have := ih (emitChild st c) h1 h2
    simp only [emitChildren, List.foldl_cons] at this ⊢
    rw [this, h3, h4]
    cases c <;> simp [runPieces] <;> omega

/-- a constant next to a runtime expression is a piece of its own even when its text is empty -/
example (st : NativeTpl.St) (hl : st.live = true) (hw : GroupOpen st) (v : Val) :
    (emitChildren st [.val v, .const ""]).out.length = st.out.length + 2 := by
  rw [output_run_pieces _ _ hl hw]; simp [runPieces]

/-- **the number of pieces decides**: two or more pieces never come back as "the value itself" — the result is the
    literal the concatenated text denotes, or the text -/
theorem two_pieces_never_identity {L : Type} (litEval : String → Option L) (isGen : Bool) (a b : Val) (rest : List Val)
    (v : Val) : nativeConcat litEval isGen (a :: b :: rest) ≠ .value v := by
  rw [native_concat_spec]
  simp only [spec, parse]
  split <;> simp

/-- `{{ x }}{{ '' }}`: two pieces, hence text; `{{ x }}` alone: the value -/
example : pieces true [.varBegin, .name ['x'], .varEnd, .varBegin, .lit ['\'', '\''], .varEnd] [(['x'], some (.obj 0 "o"))] [] =
    none := by decide
example : (piecesWith true [.varBegin, .name ['x'], .varEnd, .varBegin, .lit ['\'', '\''], .varEnd]
    [(['x'], some (.obj 0 "o"))] [] [(['\'', '\''], "")]).map Prod.fst = some [.obj 0 "o", .str ""] := by decide

/-- **no skipped constant group in the source** (READ on every run from compiler.py `CodeGenerator.visit_Output`): the
    list of groups is only appended to and the write loop writes every constant group unconditionally -/
theorem output_groups_never_dropped :
    JinjaV.Gen.NativeGuards.outputBodyOnlyAppended = true ∧ JinjaV.Gen.NativeGuards.constGroupAlwaysWritten = true := by
  decide

/-- **C34, single expression**: a template whose pieces are one non-string value renders to that value itself,
    through `render` (list) and `render_async` (list of the async generator's items), for any literal evaluator -/
theorem single_piece_template_returns_value {L : Type} (litEval : String → Option L) (isGen guard : Bool) (cfg : Cfg)
    (src : Str) (vars : List (Str × Option Val)) (conds : List (Str × Bool)) (id : Nat) (s : String)
    (h : piecesOfSource guard cfg src vars conds = some [.obj id s]) :
    render litEval isGen guard cfg src vars conds = some (.value (.obj id s)) := by
  simp [render, h, single_value_identity]

end JinjaV.C34
