/-
  C34 — native rendering returns the value itself or the literal value of the text.
-/
import JinjaV.Model.Native

namespace JinjaV.C34
open JinjaV.Native

/-- the documented result, stated on the whole piece list -/
def spec {L : Type} (litEval : String → Option L) (values : List Val) : Res L :=
  match values with
  | [] => .none
  | [.obj id s] => .value (.obj id s)
  | vs =>
    -- the literal value of the concatenated text when it parses as a literal, else the text
    parse litEval (String.join (vs.map Val.toStr))

theorem join_single (s : String) : String.join [s] = s := by
  simp [String.join_cons]

/-- **C34**: for every piece list, both ways the pieces arrive (list / generator) and
    any literal evaluator, `native_concat` returns the documented result -/
theorem native_concat_spec {L : Type} (litEval : String → Option L) (isGen : Bool) (values : List Val) :
    nativeConcat litEval isGen values = spec litEval values := by
  unfold nativeConcat spec
  match values with
  | [] => rfl
  | [.str s] => simp [Val.toStr, join_single]
  | [.obj id s] => rfl
  | a :: b :: rest =>
    simp only [List.take, List.drop]
    cases isGen <;> simp

/-- a single non-string value comes back as itself, never through `str()`/parsing -/
theorem single_value_identity {L : Type} (litEval : String → Option L) (isGen : Bool) (id : Nat) (s : String) :
    nativeConcat litEval isGen [.obj id s] = .value (.obj id s) := rfl

/-- the order of the pieces in the text is the order in which they were produced -/
theorem text_is_concatenation {L : Type} (isGen : Bool) (a b : Val) (rest : List Val) :
    nativeConcat (fun _ => (none : Option L)) isGen (a :: b :: rest) =
      .text (String.join ((a :: b :: rest).map Val.toStr)) := by
  rw [native_concat_spec]; simp [spec, parse]

-- non-vacuity
example : nativeConcat (fun s => if s = "12" then some (12 : Nat) else none) true [.str "1", .obj 7 "2"] = .literal 12 := by
  decide

end JinjaV.C34
