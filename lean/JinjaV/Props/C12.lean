/-
  C12 — whitespace control removes exactly what the documented rules describe.

  Rule-level theorems about the lexer model's whitespace handling (`lstripText`, the tag-end
  scanners), for all texts and configurations; `removed_is_whitespace`/`lex_lossless` (C39) give
  "non-whitespace is never removed" for whole sources.  The segment-level reference `Spec/Trim.lean`
  is compared with the real renderer and with the lexer model by the correspondence run.
-/
import JinjaV.Props.C39
import JinjaV.Spec.Trim

namespace JinjaV.C12
open JinjaV.Lex

/-- `-` on the left of a tag: everything kept has no trailing whitespace, what is removed is whitespace -/
theorem minus_left (cfg : Cfg) (ls v : Bool) (text : Str) :
    let kr := lstripText cfg ls v ['-'] text
    kr.1 ++ kr.2 = text ∧ kr.2.all isSpace = true ∧ (∀ c, kr.1.getLast? = some c → isSpace c = false) := by
  refine ⟨lstripText_eq _ _ _ _ _, lstripText_removed_ws _ _ _ _ _, ?_⟩
  intro c hc
  simp only [lstripText] at hc
  simp only [rstrip] at hc
  have : (['-'] : Str) == ['-'] := by decide
  simp only [this, if_true] at hc
  exact splitTrailing_fst_last _ _ _ hc

/-- `+` on the left of a tag disables all trimming on that side -/
theorem plus_left (cfg : Cfg) (ls v : Bool) (text : Str) :
    lstripText cfg ls v ['+'] text = (text, []) := by
  simp [lstripText]

/-- without `lstrip_blocks` (and without `-`) nothing is removed before a tag -/
theorem no_lstrip_nothing_removed (cfg : Cfg) (ls v : Bool) (text : Str) (h : cfg.lstripBlocks = false) :
    lstripText cfg ls v [] text = (text, []) := by
  simp [lstripText, h]

/-- **variable tags are never affected by the automatic options** -/
theorem variable_untouched (cfg : Cfg) (ls : Bool) (sign text : Str) (h : sign ≠ ['-']) :
    lstripText cfg ls true sign text = (text, []) := by
  simp [lstripText, h]

/-- `lstrip_blocks`: only blanks after the last line break are removed, and only when the tag is the
    first thing on its line -/
theorem lstrip_rule (cfg : Cfg) (ls : Bool) (text : Str) (h : cfg.lstripBlocks = true) :
    lstripText cfg ls false [] text =
      if (!(splitLastNl text).1.isEmpty || ls) && !(splitLastNl text).2.isEmpty && (splitLastNl text).2.all isSpace
      then ((splitLastNl text).1, (splitLastNl text).2) else (text, []) := by
  simp [lstripText, h]

/-- what `lstrip_blocks` removes contains no line break -/
theorem splitLastNl_tail_no_nl (text : Str) : '\n' ∉ (splitLastNl text).2 := by
  have := splitTrailing_snd_all (· != '\n') text
  intro hm
  have := List.all_eq_true.1 this '\n' hm
  simp at this

/-- `trim_blocks`: a block/comment/endraw tag end without sign consumes exactly one following newline -/
theorem trim_rule (e r : Str) (he : e.head? ≠ some '+' ∧ e.head? ≠ some '-') :
    matchEnd3 true e (e ++ '\n' :: r) = some (e ++ ['\n'], r) ∧
    matchEnd3 false e (e ++ '\n' :: r) = some (e, '\n' :: r) := by
  have hd : dropPrefix? e (e ++ '\n' :: r) = some ('\n' :: r) := dropPrefix?_append _ _
  constructor <;>
  · unfold matchEnd3
    cases e with
    | nil => simp [matchPlainNl, dropPrefix?]
    | cons c cs =>
      have h1 : c ≠ '+' := by intro h; apply he.1; simp [h]
      have h2 : c ≠ '-' := by intro h; apply he.2; simp [h]
      simp only [List.cons_append]
      split
      · rename_i heq; simp at heq; exact absurd heq.1 h1
      · rename_i heq; simp at heq; exact absurd heq.1 h2
      · simp only [List.cons_append] at hd
        simp [matchPlainNl, hd]

/-- `+` before the closing delimiter keeps the newline even under `trim_blocks` -/
theorem plus_right (trim : Bool) (e r : Str) :
    matchEnd3 trim e ('+' :: e ++ r) = some ('+' :: e, r) := by
  have hd : dropPrefix? e (e ++ r) = some r := dropPrefix?_append _ _
  simp [matchEnd3, hd]

/-- `-` before the closing delimiter removes all following whitespace, nothing else -/
theorem minus_right (trim : Bool) (e r : Str) :
    matchEnd3 trim e ('-' :: e ++ r) = some ('-' :: e ++ r.takeWhile isSpace, r.dropWhile isSpace) := by
  have hd : dropPrefix? e (e ++ r) = some r := dropPrefix?_append _ _
  simp [matchEnd3, hd, spanSpace, spanP]

/-- the end of a variable tag never consumes a newline, whatever `trim_blocks` says -/
theorem variable_end_keeps_newline (e r : Str) (he : e.head? ≠ some '-') :
    matchEndMinusOrPlain e (e ++ '\n' :: r) = some (e, '\n' :: r) := by
  have hd : dropPrefix? e (e ++ '\n' :: r) = some ('\n' :: r) := dropPrefix?_append _ _
  unfold matchEndMinusOrPlain
  cases e with
  | nil => simp [dropPrefix?]
  | cons c cs =>
    have h2 : c ≠ '-' := by intro h; apply he; simp [h]
    simp only [List.cons_append]
    split
    · rename_i heq; simp at heq; exact absurd heq.1 h2
    · simp only [List.cons_append] at hd
      simp [hd]

-- non-vacuity: the reference rules on a small skeleton
open JinjaV.Trim in
example : trimSpec ⟨"{%".toList, "%}".toList, "{{".toList, "}}".toList, "{#".toList, "#}".toList, none, none, true, true, false⟩
    [.text "a\n  ".toList, .tag .block .none .none "x".toList, .text "\nb ".toList, .tag .variable .minus .none "v".toList,
     .text "\n".toList] .nothing true =
    [.data "a\n".toList, .data "b".toList, .value "v".toList, .data "\n".toList] := by decide +kernel

end JinjaV.C12
