#!/bin/bash
# Build the framework offline from files on disk: regenerate Gen/*.lean from /repo, build every
# Lean module (models, specs, lemmas, property theorems) and the line-protocol driver.
set -e
here="$(cd "$(dirname "$0")" && pwd)"
export PATH="/opt/veriftools/lean/bin:$PATH"
cd "$here"
/venv/bin/python -B - <<'PY'
import sys
sys.path.insert(0, ".")
from harness import core
import translate.registry as reg
for g in reg.ALL:
    try:
        name, content = g()
        core.write_if_changed(core.GEN / name, content)
    except Exception as e:
        # fall back to the committed baseline so that the build can proceed; the check of the
        # owning property reports the broken tie
        print("translator failed:", g.__module__, e)
PY
cd lean
# driver dispatch table + root module; every model/spec/lemma/property module is built by name
/venv/bin/python -B ../tools/gen_wire_all.py
mods=$(find JinjaV/Props JinjaV/Lemmas JinjaV/Spec JinjaV/Model -name '*.lean' | sort | sed 's|/|.|g; s|\.lean$||')
lake build JinjaV jv-driver $mods 2>&1 | tail -5
test -x .lake/build/bin/jv-driver
echo "(ping 1)" | .lake/build/bin/jv-driver
